"""Minimal Rust-aware text utilities: masking of comments / literals and
bracket matching.  Everything the extractor does is positional on the *masked*
text (same length as the source), so braces or keywords inside strings and
comments can never confuse it."""

import re


def mask(src: str, keep_strings: bool = False) -> str:
    """Return a string of the same length as `src` in which the contents of
    comments, string literals and char literals are replaced by spaces
    (newlines are kept).  With keep_strings=True only comments are masked."""
    out = list(src)
    i, n = 0, len(src)

    def blank(a, b):
        for k in range(a, b):
            if out[k] != "\n":
                out[k] = " "

    while i < n:
        c = src[i]
        if c == "/" and i + 1 < n and src[i + 1] == "/":
            j = src.find("\n", i)
            j = n if j < 0 else j
            blank(i, j)
            i = j
        elif c == "/" and i + 1 < n and src[i + 1] == "*":
            depth, j = 1, i + 2
            while j < n and depth:
                if src.startswith("/*", j):
                    depth += 1
                    j += 2
                elif src.startswith("*/", j):
                    depth -= 1
                    j += 2
                else:
                    j += 1
            blank(i, j)
            i = j
        elif c == '"' or (c in "rb" and _raw_or_byte_string_at(src, i)):
            j = _string_end(src, i)
            if not keep_strings:
                # keep the delimiters, blank the contents
                k = src.find('"', i)
                blank(k + 1, j - 1 if src[j - 1] != "#" else _last_quote(src, j))
            i = j
        elif c == "'":
            # char literal or lifetime
            if i + 1 < n and src[i + 1] == "\\":
                j = src.find("'", i + 2)
                # '\'' case
                if j == i + 2:
                    j = src.find("'", j + 1)
                if not keep_strings:
                    blank(i + 1, j)
                i = j + 1
            elif i + 2 < n and src[i + 2] == "'":
                if not keep_strings:
                    blank(i + 1, i + 2)
                i += 3
            else:
                i += 1  # lifetime
        else:
            i += 1
    return "".join(out)


def _raw_or_byte_string_at(src, i):
    # must not be part of an identifier
    if i > 0 and (src[i - 1].isalnum() or src[i - 1] == "_"):
        return False
    m = re.match(r'(br|rb|b|r)(#*)"', src[i:i + 40])
    if not m:
        return False
    if m.group(1) == "b" and m.group(2):
        return False
    return True


def _string_end(src, i):
    """index just past the end of the string literal starting at i"""
    m = re.match(r'(br|rb|b|r)?(#*)"', src[i:i + 40])
    prefix, hashes = m.group(1) or "", m.group(2)
    j = i + m.end()
    if "r" in prefix:
        close = '"' + hashes
        k = src.find(close, j)
        return len(src) if k < 0 else k + len(close)
    while j < len(src):
        if src[j] == "\\":
            j += 2
        elif src[j] == '"':
            return j + 1
        else:
            j += 1
    return len(src)


def _last_quote(src, j):
    k = j - 1
    while src[k] == "#":
        k -= 1
    return k


OPEN = {"{": "}", "(": ")", "[": "]"}
CLOSE = {v: k for k, v in OPEN.items()}


def match_bracket(masked: str, i: int) -> int:
    """masked[i] is an opening bracket; return the index of its partner."""
    stack = []
    for k in range(i, len(masked)):
        ch = masked[k]
        if ch in OPEN:
            stack.append(ch)
        elif ch in CLOSE:
            if not stack or stack[-1] != CLOSE[ch]:
                raise ValueError(f"unbalanced bracket at {k}")
            stack.pop()
            if not stack:
                return k
    raise ValueError("unterminated bracket")


def find_top_level(masked: str, chars: str, start: int, end: int = None) -> int:
    """first index >= start of any char in `chars` at bracket depth 0
    (angle brackets are not tracked).  -1 if none."""
    end = len(masked) if end is None else end
    depth = 0
    k = start
    while k < end:
        ch = masked[k]
        if depth == 0 and ch in chars:
            return k
        if ch in OPEN:
            depth += 1
        elif ch in CLOSE:
            depth -= 1
            if depth < 0:
                return -1
        k += 1
    return -1


def norm_ws(s: str) -> str:
    return re.sub(r"\s+", " ", s).strip()
