#!/usr/bin/env python3
"""Development aid (not used by any registered check): verify one function of a generated unit with only some of the
woven per-arm assertions active (the others are turned into assumptions), to find out quickly which arm fails.
usage: dbg_arms.py GEN.rs FUNCTION [KEEP_REGEX] [--rlimit N]
Prints the failing assertion lines together with the arm pattern they belong to."""
import re
import subprocess
import sys
import tempfile

gen, fn = sys.argv[1], sys.argv[2]
keep = re.compile(sys.argv[3]) if len(sys.argv) > 3 and not sys.argv[3].startswith("--") else None
rl = sys.argv[sys.argv.index("--rlimit") + 1] if "--rlimit" in sys.argv else "60"
L = open(gen).read().split("\n")


def arm_of(idx):
    k = idx
    while k > 0 and not L[k].startswith("=> { let "):
        k -= 1
    j, pat = k - 1, []
    while j > 0 and not re.match(r"^\w+ },", L[j]) and "match (" not in L[j]:
        if L[j].strip() and not L[j].strip().startswith("//"):
            pat.append(L[j].strip())
        j -= 1
    return " ".join(reversed(pat))[:200]


out = list(L)
if keep is not None:
    for i, l in enumerate(L):
        if l.strip().startswith("assert(good(") and not keep.search(arm_of(i)):
            out[i] = l.replace("assert(", "assume(", 1)
            if out[i].rstrip().endswith("by {") or "by { //" in out[i]:
                out[i] = re.sub(r"\)\s*by\s*\{.*$", "); assert(true) by {", out[i])
with tempfile.NamedTemporaryFile("w", suffix=".rs", delete=False, dir="/tmp") as f:
    f.write("\n".join(out))
    path = f.name
p = subprocess.run(["verus", path, "--verify-root", "--verify-function", fn, "--rlimit", rl, "--multiple-errors", "40", "--time"],
                   capture_output=True, text=True)
txt = p.stdout + p.stderr
for m in re.finditer(r"error: ([^\n]*)\n\s*-->\s*[^:]+:(\d+):", txt):
    ln = int(m.group(2))
    print(f"{m.group(1)} @ {ln}: {L[ln-1].strip()[:110]}\n      arm: {arm_of(ln-1)}")
for m in re.finditer(r"verification results[^\n]*|total smt-run[^\n]*|total-time[^\n]*", txt):
    print(m.group(0).strip())
