"""Replay against the real crate (DESIGN §2.7).

Verus gives no counterexample.  For an obligation that failed, the property
config may list candidate inputs (`[[witness]]`) together with the replay kind
that evaluates the property's own statement on the real crate; the first
candidate the real code fails on is recorded as the witness.  If none fails the
violation is still reported, ending in `no-failing-input-found`.
The witness search never decides a property: it only decorates a violation that
the verifier already reported.
"""

import json
import os
import shutil
import subprocess
import tempfile

VERIF = os.path.dirname(os.path.dirname(os.path.abspath(__file__)))
TARGET = os.path.join(VERIF, ".cache", "replay-target")
BIN = os.path.join(TARGET, "debug", "vreplay")


def build(repo):
    """(re)build the replay binary against /repo's working tree; returns error text or None"""
    rdir = os.path.join(VERIF, "replay")
    lock = os.path.join(repo, "Cargo.lock")
    if os.path.exists(lock):
        shutil.copyfile(lock, os.path.join(rdir, "Cargo.lock"))
    env = dict(os.environ, CARGO_NET_OFFLINE="true", CARGO_TARGET_DIR=TARGET)
    if repo != "/repo":
        # scratch copies: point the path dependency somewhere else
        env["VERIF_REPO"] = repo
    p = subprocess.run(["cargo", "build", "--offline", "--quiet"], cwd=rdir, env=env, capture_output=True, text=True,
                       timeout=1800)
    if p.returncode != 0:
        return p.stderr[-3000:]
    return None


def run_one(kind, text, timeout=120):
    with tempfile.NamedTemporaryFile("w", suffix=".in", delete=False) as f:
        f.write(text)
        path = f.name
    try:
        p = subprocess.run([BIN, kind, path], capture_output=True, text=True, timeout=timeout)
        out, err, rc = p.stdout, p.stderr, p.returncode
    except subprocess.TimeoutExpired:
        out, err, rc = "", "timeout", -9
    finally:
        os.unlink(path)
    violated = ("RESULT: violated" in out) or rc not in (0,)
    return {"kind": kind, "input": text, "exit_status": rc, "stdout": out[-2000:], "stderr": err[-1500:],
            "violated": violated}


def find(pid, oid, cfg, repo):
    ws = [w for w in cfg.get("witness", []) if oid.startswith(w.get("obligation_prefix", pid))]
    if not ws:
        return None
    err = build(repo)
    if err:
        raise RuntimeError("replay build failed: " + err)
    for w in ws:
        for cand in w["candidates"]:
            r = run_one(w["kind"], cand)
            if r["violated"]:
                return r
    return None


def sweep(pid, cfg, repo, generated=False):
    """thorough tier: run every stored candidate input of the property against the real crate"""
    ws = cfg.get("witness", [])
    if not ws:
        return []
    err = build(repo)
    if err:
        raise RuntimeError("replay build failed: " + err)
    out = []
    for w in ws:
        for cand in w["candidates"]:
            out.append(run_one(w["kind"], cand))
    if generated:
        # thorough tier: bounded exploration with deterministic generated inputs (engine/gen_inputs.py)
        import gen_inputs
        from concurrent.futures import ThreadPoolExecutor
        for kind in dict.fromkeys(w["kind"] for w in ws):
            # (VERIF_SEED selects another deterministic set of inputs; seeds 1..8 were run on the unchanged tree)
            inputs = gen_inputs.generate(kind, int(os.environ.get("VERIF_SEED", "0") or 0) or 20260922)
            if generated == "quick":
                inputs = inputs[::5]          # (every fifth input: the quick tier explores a fifth of the bound)
            if not inputs:
                continue
            with ThreadPoolExecutor(8) as ex:
                res = list(ex.map(lambda x: run_one(kind, x, 60), inputs))
            for r in res:
                r["generated"] = True
                if "input does not parse" in r["stdout"] and r["exit_status"] == 0:
                    r["violated"] = False          # (a generated text outside the grammar says nothing)
                    r["unparsable"] = True
            out += res
    return out


def replay_file(path, repo):
    with open(path) as f:
        doc = json.load(f)
    print(f"property {doc['property']}  obligation {doc['obligation']}")
    print("verifier output:\n" + doc.get("verifier_output", ""))
    w = doc.get("witness")
    if not w:
        print("no failing input was found for this obligation (no-failing-input-found); nothing to execute")
        return 0
    err = build(repo)
    if err:
        print("replay build failed:\n" + err)
        return 2
    r = run_one(w["kind"], w["input"])
    print(f"replaying {w['kind']} on:\n{w['input']}")
    print(r["stdout"])
    if r["stderr"].strip():
        print(r["stderr"])
    print(f"exit status {r['exit_status']}; property violated on the real code: {r['violated']}")
    return 1 if r["violated"] else 0
