"""Bounded exploration for the thorough tier (DESIGN §0.1): deterministic pseudo-random inputs per replay kind.

Each generator draws small programs / expressions from a fixed alphabet with a fixed seed, so every run explores the
same inputs.  The replay binary evaluates the property's own statement on the real crate for each of them.  This is
testing with a stated bound (count and shape below), never counted as proof; a failing input is reported as a
violation with that input as replay.
"""
import random

FRAMES = ['0 "rf"', '1 "rf"', '2 "rf"', '0 1 "cz"', '1 2 "cz"', '0 "ro_rx"', '1 "ro_rx"']


def _deffs(frames):
    return "".join(f"DEFFRAME {f}:\n    SAMPLE-RATE: 1e9\n    INITIAL-FREQUENCY: 1e6\n" for f in frames)


def _wave(r):
    return r.choice(["flat(duration: 1e-6, iq: 1)", "flat(duration: 2e-6, iq: 0.5)", "flat(duration: f, iq: 1)"])


def _rf_instruction(r, frames, regions=True):
    f = r.choice(frames)
    nb = r.choice(["", "NONBLOCKING "])
    qs = f.split('"')[0].split()
    k = r.randrange(12)
    if k == 0:
        return f"{nb}PULSE {f} {_wave(r)}"
    if k == 1:
        return f"{nb}CAPTURE {f} {_wave(r)} ro[{r.randrange(2)}]"
    if k == 2:
        return f"{nb}RAW-CAPTURE {f} 1e-6 raw[0]"
    if k == 3:
        return f"SET-FREQUENCY {f} {r.choice(['1e6', 'f', 'f*2', 'g'])}"
    if k == 4:
        return f"SHIFT-PHASE {f} {r.choice(['0.5', 'g', 'f+g'])}"
    if k == 5:
        return f"SET-SCALE {f} {r.choice(['0.5', 'g'])}"
    if k == 6:
        g = r.choice(frames)
        return f"SWAP-PHASES {f} {g}" if g != f else f"SET-PHASE {f} 0.0"
    if k == 7:
        return "FENCE " + " ".join(sorted(set(r.choice("012") for _ in range(r.randrange(0, 3)))))
    if k == 8:
        return f"DELAY {' '.join(qs)} {r.choice(['1e-6', '2e-6'])}"
    if k == 9:
        return f"DELAY {' '.join(qs)} \"{f.split(chr(34))[1]}\" {r.choice(['1e-6', 'f', 'f+g'])}"
    if k == 10:
        return f"SHIFT-FREQUENCY {f} {r.choice(['1.0', 'f'])}"
    return f"SET-PHASE {f} {r.choice(['0.1', 'g'])}"


CLASSICAL = [
    "MOVE f 1.0", "MOVE g f", "ADD f g", "SUB g 2.0", "MUL f f", "DIV g f", "NEG f", "MOVE i 1", "ADD i j", "SUB j 1",
    "NOT k", "AND k l", "IOR l k", "XOR k 1", "EXCHANGE f g", "EXCHANGE i j", "CONVERT f i", "CONVERT i k",
    "LOAD f v i", "STORE v j g", "STORE v i 2.0", "EQ k i j", "GT l f 1.5", "LE k i 3", "GE l f g", "LT k j i",
    "MOVE ro[0] 0.0", "ADD f ro[1]", "NOP",
]
DECLS = ("DECLARE f REAL\nDECLARE g REAL\nDECLARE i INTEGER\nDECLARE j INTEGER\nDECLARE k BIT\nDECLARE l BIT\n"
         "DECLARE v REAL[4]\nDECLARE ro REAL[2]\nDECLARE raw REAL[8]\n")


def gen_schedule(r):
    # few frames / few regions and longer blocks, so that several pending blockers / readers meet one user / writer
    frames = r.sample(FRAMES, r.randrange(2, 5))
    pulses = [f for f in frames]
    classical = r.sample(CLASSICAL, 6)
    body = []
    for _ in range(r.randrange(3, 13)):
        x = r.random()
        if x < 0.45:
            f = r.choice(pulses)
            body.append(f"{r.choice(['', '', 'NONBLOCKING '])}PULSE {f} {_wave(r)}")
        elif x < 0.65:
            body.append(_rf_instruction(r, frames))
        elif x < 0.75:
            body.append(r.choice(["RESET 0", "RESET 1", "RESET 2", "RESET"]))
        else:
            body.append(r.choice(classical))
    return _deffs(frames) + DECLS + "\n".join(body) + "\n"


def gen_memory_schedule(r):
    regions = ["f", "g", "ro[0]", "ro[1]"]
    ops = ["MOVE {a} 1.0", "MOVE {a} {b}", "ADD {a} {b}", "MUL {a} {a}", "SUB {a} 2.0", "EXCHANGE {a} {b}", "NEG {a}",
           'SET-FREQUENCY 0 "rf" {a}', 'SHIFT-PHASE 0 "rf" {a}+{b}', 'NONBLOCKING CAPTURE 0 "ro_rx" flat(duration: 1e-6, iq: 1) {c}',
           'NONBLOCKING RAW-CAPTURE 0 "ro_rx" 1e-6 raw[0]', 'NONBLOCKING PULSE 0 "rf" flat(duration: {a}, iq: 1)', "GT k {a} {b}", "LOAD {a} v i", "STORE v i {a}",
           # readout into the same region from frames that nothing else orders
           'NONBLOCKING CAPTURE 1 "ro_rx" flat(duration: 1e-6, iq: 1) {c}', 'CAPTURE 2 "ro_rx" flat(duration: 1e-6, iq: 1) {c}',
           'NONBLOCKING RAW-CAPTURE 1 "ro_rx" 1e-6 raw[0]', 'RAW-CAPTURE 2 "ro_rx" 1e-6 raw[0]', "MOVE f raw[1]", "ADD g {c}"]
    body = []
    for _ in range(r.randrange(3, 13)):
        a, b = r.choice(regions), r.choice(regions)
        body.append(r.choice(ops).format(a=a, b=b, c=r.choice(["ro[0]", "ro[1]"])))
    return _deffs(['0 "rf"', '0 "ro_rx"', '1 "ro_rx"', '2 "ro_rx"']) + DECLS + "\n".join(body) + "\n"


def gen_frame_match(r):
    defined = r.sample(FRAMES, r.randrange(1, 6))
    body = [_rf_instruction(r, FRAMES) for _ in range(r.randrange(2, 7))]
    for _ in range(r.randrange(0, 3)):
        body.append(r.choice(["RESET", "RESET 0", "RESET 1", "RESET 2", "RESET 3"]))
    r.shuffle(body)
    return _deffs(defined) + DECLS + "\n".join(body) + "\n"


def gen_frame_match_small(r):
    """one or two instructions only, so that what the instruction names is all the program uses"""
    defined = r.sample(FRAMES, r.randrange(1, 6))
    body = []
    for _ in range(r.randrange(1, 3)):
        k = r.randrange(4)
        if k == 0:
            body.append("FENCE " + " ".join(sorted(set(r.choice("0123") for _ in range(r.randrange(1, 3))))))
        elif k == 1:
            body.append(r.choice(["RESET 0", "RESET 1", "RESET 2", "RESET", "FENCE"]))
        elif k == 2:
            body.append(f"DELAY {r.choice(['0', '1', '0 1', '2'])} 1e-6")
        else:
            body.append(_rf_instruction(r, FRAMES))
    return _deffs(defined) + DECLS + "\n".join(body) + "\n"


def gen_memory_accesses(r):
    frames = FRAMES[:4]
    body = [r.choice(CLASSICAL) if r.random() < 0.7 else _rf_instruction(r, frames) for _ in range(r.randrange(3, 12))]
    body += r.sample(["JUMP-WHEN @x k", "JUMP-UNLESS @x l", "LABEL @x", "HALT", "WAIT", "MEASURE 0 k", "MEASURE 1", "RESET", "PRAGMA foo"], 3)
    return _deffs(frames) + DECLS + "\n".join(body) + "\n"


def gen_type_check(r):
    exprs = ["f", "g", "f + g", "2 * f", "f ^ 2", "cos(f)", "i", "f + i", "k", "sqrt(g) - pi", "f / (g + 1)", "-f", "v[1]", "exp(i)", "1.5", "f * 0",
             "f ^ i", "2 ^ k", "f ^ g", "f + 0*i", "(k - k) + f", "0*undeclared + 1", "g - g", "f * (1 + 0*j)", "cis(f)", "f ^ (g + i)", "%v", "f + %v"]
    body = []
    for _ in range(r.randrange(2, 9)):
        if r.random() < 0.4:
            kw = r.choice(["SET-FREQUENCY", "SET-PHASE", "SET-SCALE", "SHIFT-PHASE", "SHIFT-FREQUENCY"])
            body.append(f'{kw} 0 "rf" {r.choice(exprs)}')
        else:
            body.append(r.choice(CLASSICAL + ["ADD f i", "AND f k", "MOVE k 1.0", "EXCHANGE f i", "LOAD k v i", "STORE v f g", "EQ f i j", "NOT f", "MOVE i 1.5", "ADD i 2.5"]))
    return _deffs(['0 "rf"']) + DECLS + "\n".join(body) + "\n"


# "every expression argument of SET-*/SHIFT-* must be real-valued at any nesting depth: declared REAL memory, real
#  numbers or pi, combined by operators and functions, with no variables"
REAL_EXPRS = ["f", "g", "f + g", "2 * f", "f ^ 2", "cos(f)", "sqrt(g) - pi", "f / (g + 1)", "-f", "v[1]", "1.5", "f * 0", "f ^ g", "g - g",
              "exp(f) * sin(v[3])", "pi", "-(f - 2.5) ^ (g * g)"]
NOT_REAL_EXPRS = ["i", "f + i", "k", "exp(i)", "f ^ i", "2 ^ k", "f + 0*i", "(k - k) + f", "0*undeclared + 1", "f * (1 + 0*j)", "f ^ (g + i)", "%v",
                  "f + %v", "%v - %v", "cos(sin(j))", "f / (g + k)", "-(-i)", "undeclared"]


def gen_type_check_verdicts(r):
    """programs of frame updates only, each built from expressions whose verdict the statement fixes"""
    bad = r.random() < 0.5
    n = r.randrange(1, 6)
    exprs = [r.choice(REAL_EXPRS) for _ in range(n)]
    if bad:
        exprs[r.randrange(n)] = r.choice(NOT_REAL_EXPRS)
    body = [f'{r.choice(["SET-FREQUENCY", "SET-PHASE", "SET-SCALE", "SHIFT-PHASE", "SHIFT-FREQUENCY"])} 0 "rf" {e}' for e in exprs]
    return f"# expect {'error' if bad else 'ok'}\n" + _deffs(['0 "rf"']) + DECLS + "\n".join(body) + "\n"


def gen_cfg(r):
    labels = ["@a", "@b", "@c"]
    pool = ["X 0", "Y 1", "H 0", "MEASURE 0 k", "NOP"]
    body = ["DECLARE k BIT"]
    for _ in range(r.randrange(1, 10)):
        x = r.random()
        if x < 0.45:
            body.append(r.choice(pool))
        elif x < 0.65:
            body.append("LABEL " + r.choice(labels))
        elif x < 0.8:
            body.append("JUMP " + r.choice(labels))
        elif x < 0.9:
            body.append(r.choice(["JUMP-WHEN ", "JUMP-UNLESS "]) + r.choice(labels) + " k")
        else:
            body.append("HALT")
    return "\n".join(body) + "\n"


GATEDEF = "DEFGATE {n} AS MATRIX:\n    {a}, 0\n    0, 1\n"


def _definitions(r, tag=""):
    out = []
    for _ in range(r.randrange(2, 9)):
        k = r.randrange(9)
        n = r.choice("ABC")
        if k == 0:
            out.append(GATEDEF.format(n="G" + n, a=r.choice("123")).rstrip("\n"))
        elif k == 1:
            out.append(f"DECLARE m{n} {r.choice(['BIT', 'REAL', 'INTEGER[2]', 'BIT[2]', 'BIT[4]', 'INTEGER[3]', 'REAL[2]'])}")
        elif k == 2:
            out.append(f"DEFWAVEFORM w{n}:\n    {r.choice('123')}, 2")
        elif k == 3:
            # (qubits shared with the body and with other calibrations; the same signature may come again)
            out.append(f"DEFCAL {r.choice(['X', 'Y'])} {r.choice(['0', '1', 'q'])}:\n    {r.choice(['Z', 'H'])} {r.choice('012345')}")
        elif k == 4:
            out.append(f"DEFCAL MEASURE {r.choice(['0', 'q'])} addr:\n    X {r.choice('0167')}")
        elif k == 5:
            out.append(f"DEFCIRCUIT C{n} q:\n    X q")
        elif k == 6:
            out.append(f"PRAGMA EXTERN e{n} \"(x : INTEGER)\"")
        elif k == 7:
            out.append(f"PRAGMA {r.choice(['extern', 'FOO', 'Extern'])} z{n}")
        else:
            out.append(r.choice(["X 0", "Y 1", "CNOT 0 2", "H 8", "RX(1.0) 9"]))
    return "\n".join(out) + "\n"


def gen_program_defs(r):
    return _definitions(r)


def gen_two_programs(r):
    return _definitions(r) + "=====\n" + _definitions(r)


def _frames_with_attributes(r):
    out = ""
    for f in r.sample(FRAMES[:4], r.randrange(0, 4)):
        attrs = r.sample(['SAMPLE-RATE: 1.0', 'SAMPLE-RATE: 2.0', 'INITIAL-FREQUENCY: 1e6', 'HARDWARE-OBJECT: "a"', 'HARDWARE-OBJECT: "b"', 'CENTER-FREQUENCY: 3.0'], r.randrange(1, 4))
        # (one value per attribute key)
        seen, keep = set(), []
        for a in attrs:
            if a.split(":")[0] not in seen:
                seen.add(a.split(":")[0])
                keep.append(a)
        out += f"DEFFRAME {f}:\n" + "".join(f"    {a}\n" for a in keep)
    return out


def gen_two_programs_with_frames(r):
    return _frames_with_attributes(r) + _definitions(r) + "=====\n" + _frames_with_attributes(r) + _definitions(r)


def gen_redefinitions(r):
    """one program in which definitions are repeated with other values (first-added order, replacement in place)"""
    out = []
    for _ in range(r.randrange(4, 12)):
        k = r.randrange(6)
        n = r.choice("AB")
        if k == 0:
            out.append(GATEDEF.format(n="G" + n, a=r.choice("123")).rstrip("\n"))
        elif k == 1:
            out.append(f"DEFWAVEFORM w{n}:\n    {r.choice('123')}, 2")
        elif k == 2:
            out.append(f"DEFCAL X {r.choice(['0', '1', 'q'])}:\n    {r.choice(['Z', 'H', 'Y'])} {r.choice('345')}")
        elif k == 3:
            out.append(f"DEFCAL MEASURE {r.choice(['0', '1', 'q'])} addr:\n    {r.choice(['X', 'Y'])} {r.choice('67')}")
        elif k == 4:
            out.append(f"DECLARE m{n} {r.choice(['BIT', 'REAL'])}")
        else:
            out.append(r.choice(["X 0", "Y 1"]))
    for _ in range(r.randrange(0, 5)):
        out.insert(r.randrange(len(out) + 1), f"PRAGMA EXTERN e{r.choice('ABC')} \"{r.choice(['INTEGER', 'REAL'])} (x : {r.choice(['INTEGER', 'BIT'])})\"")
    return "\n".join(out) + "\n"


def _expr(r, depth, leaves, fns=("cos", "sin", "exp", "sqrt", "cis")):
    if depth == 0 or r.random() < 0.25:
        return r.choice(leaves)
    k = r.randrange(10)
    if k < 6:
        return f"({_expr(r, depth - 1, leaves, fns)} {r.choice('+-*/^')} {_expr(r, depth - 1, leaves, fns)})"
    if k < 8:
        return f"{r.choice(fns)}({_expr(r, depth - 1, leaves, fns)})"
    return f"(-{_expr(r, depth - 1, leaves, fns)})"


def gen_eval_subst(r):
    leaves = ["%x", "%y", "%z", "%w", "m[0]", "m[1]", "n[0]", "1.5", "2", "pi", "0.25", "%q", "m[7]", "0", "1", "k[0]"]
    return "\n".join(_expr(r, 3, leaves) for _ in range(8)) + "\n"


def _poly(r, depth):
    """expressions without singularities or branch cuts: + - *, division by a non-zero literal, powers 0..3, and the
    entire functions cos / sin / exp -- so that `evaluates to the same value` has no floating-point corner to trip on"""
    leaves = ["%x", "%y", "%z", "m[0]", "m[1]", "0", "1", "2", "3", "0.5", "pi", "%x", "%y"]
    if depth == 0 or r.random() < 0.2:
        return r.choice(leaves)
    k = r.randrange(12)
    if k < 7:
        return f"({_poly(r, depth - 1)} {r.choice('+-*+-*')} {_poly(r, depth - 1)})"
    if k == 7:
        return f"({_poly(r, depth - 1)} / {r.choice(['2', '4', '0.5', '(-3)'])})"
    if k == 8:
        return f"({_poly(r, depth - 1)} ^ {r.choice('0123')})"
    if k == 9:
        return f"{r.choice(['cos', 'sin', 'exp'])}({_poly(r, depth - 1)})"
    return f"(-{_poly(r, depth - 1)})"


def gen_simplify(r):
    return "\n".join(_poly(r, 4) for _ in range(10)) + "\n"


def gen_simplify_shapes(r):
    """the shapes the rewrite rules look for (affine sums, re-association, cancellation, distribution), with every
    placement of the shared sub-term"""
    atoms = ["%x", "%y", "%z", "m[0]", "2", "3", "0.5", "pi", "(%x + 1)", "cos(%y)"]
    def prod(x, a):
        return r.choice([f"{x} * {a}", f"{a} * {x}"])
    def affine(x):
        a, b = r.choice(atoms), r.choice(atoms)
        return r.choice([f"({prod(x, a)} + {b})", f"({b} + {prod(x, a)})", f"({prod(x, a)} - {b})", f"({prod(x, a)})", f"({x} + {b})"])
    out = []
    for _ in range(10):
        x = r.choice(["%x", "%y", "m[1]", "(%x * %y)"])
        a, b, c = r.choice(atoms), r.choice(atoms), r.choice(atoms)
        k = r.randrange(9)
        if k <= 2:
            out.append(f"{affine(x)} {r.choice('+-')} {affine(x)}")
        elif k == 3:
            out.append(f"({a} {r.choice('+-')} {b}) {r.choice('+-')} {c}")
        elif k == 4:
            out.append(f"{a} {r.choice('+-')} ({b} {r.choice('+-')} {c})")
        elif k == 5:
            out.append(f"({a} {r.choice('*/')} 2) {r.choice('*/')} 4")
        elif k == 6:
            out.append(f"({a} {r.choice('+-')} {x}) {r.choice('+-')} {x}")
        elif k == 7:
            out.append(f"(-{a}) {r.choice('+-*')} {r.choice([a, b])}")
        else:
            out.append(f"{prod(x, a)} {r.choice('+-')} {prod(x, b)}")
    return "\n".join(out) + "\n"


def gen_calibrations(r):
    """acyclic calibrations A -> B -> C -> D (a body only invokes later letters), some bodies hoist declarations"""
    names = "ABCD"
    out = []
    for i, n in enumerate(names):
        if r.random() < 0.85:
            body = []
            for _ in range(r.randrange(1, 5)):
                x = r.random()
                if x < 0.25:
                    body.append(f"DECLARE t{n}{len(body)} REAL")
                elif x < 0.65 and i + 1 < len(names):
                    body.append(f"{r.choice(names[i + 1:])} 0")
                else:
                    body.append(r.choice(["X 0", "NOP", "H 0"]))
            out.append(f"DEFCAL {n} 0:\n" + "".join(f"    {b}\n" for b in body).rstrip("\n"))
    body = [r.choice(["A 0", "B 0", "C 0", "D 0", "H 1", "A 1", "CNOT 0 1"]) for _ in range(r.randrange(1, 6))]
    return "# expect ok\n" + "\n".join(out + body) + "\n"


def gen_expansions(r):
    """calibration programs whose verdict is known: acyclic ones (also through parameters and measurements) must
    expand, a calibration that reaches itself must be reported as recursive"""
    k = r.randrange(6)
    if k <= 1:
        return gen_calibrations(r)
    if k == 2:      # the same gate with other parameters is not a repetition
        p = r.choice(["pi/2", "1.0", "2.0"])
        return (f"# expect ok\nDEFCAL RX(%theta) 0:\n    RX({p}) 0\n    RZ(%theta) 0\nDEFCAL RX({p}) 0:\n    {r.choice(['NOP', 'X 0', 'RZ(0.5) 0'])}\n"
                f"RX({r.choice(['0.5', '3.0', '%z'])}) 0\n")
    if k == 3:      # measurements expanded by measurement calibrations
        return ("# expect ok\nDECLARE ro BIT\nDEFCAL MEASURE 0 addr:\n    MEASURE 1 addr\n    X 0\nDEFCAL MEASURE 1 addr:\n    NOP\n"
                f"DEFCAL X 0:\n    {r.choice(['NOP', 'MEASURE 1 ro'])}\nMEASURE 0 ro\nX 0\n")
    if k == 4:      # a cycle through gates
        a, b = r.sample(["A", "B", "C"], 2)
        return f"# expect recursive\nDEFCAL {a} 0:\n    X 0\n    {b} 0\nDEFCAL {b} 0:\n    {a} 0\n{r.choice([a, b])} 0\n"
    # a cycle through a measurement calibration
    return ("# expect recursive\nDECLARE ro BIT\nDEFCAL MEASURE 0 addr:\n    X 0\n    MEASURE 0 addr\nMEASURE 0 ro\n")


def gen_gate_match(r):
    out = []
    for _ in range(r.randrange(2, 8)):
        mod = r.choice(["", "", "", "DAGGER "])
        if r.random() < 0.5:
            out.append(f"DEFCAL {mod}RX({r.choice(['%t', 'pi', 'pi/2', '1.0'])}) {r.choice(['0', '1', 'q'])}:\n    NOP")
        else:
            out.append(f"DEFCAL {mod}CZ {r.choice(['0', '1', 'q'])} {r.choice(['1', '2', 'r'])}:\n    NOP")
    # (modifier lists that differ only in order or multiplicity must not match each other)
    for m1, m2 in [("DAGGER CONTROLLED", "CONTROLLED DAGGER"), ("DAGGER DAGGER", "DAGGER CONTROLLED")]:
        if r.random() < 0.25:
            out.append(f"DEFCAL {m1} RX(%t) 3 0:\n    NOP")
            out.append(f"{r.choice([m1, m2])} RX(0.5) 3 0")
    for _ in range(r.randrange(3, 9)):
        mod = r.choice(["", "", "", "DAGGER ", "CONTROLLED "])
        if r.random() < 0.5:
            q = "3 " if mod == "CONTROLLED " else ""
            out.append(f"{mod}RX({r.choice(['pi', 'pi/2', '1.0', '0.5', '%a', '%a + 1'])}) {q}{r.choice('012')}")
        else:
            a, b = r.sample("0123", 2)
            out.append(f"{'DAGGER ' if mod == 'DAGGER ' else ''}CZ {a} {b}")
    return "\n".join(out) + "\n"


def gen_measure_match(r):
    out = ["DECLARE ro BIT"]
    for _ in range(r.randrange(2, 8)):
        out.append(f"DEFCAL MEASURE {r.choice(['0', '1', '2', 'q'])}{r.choice(['', ' addr'])}:\n    NOP")
    for _ in range(r.randrange(3, 8)):
        out.append(f"MEASURE {r.choice('0123')}{r.choice(['', ' ro'])}")
    return "\n".join(out) + "\n"


def gen_call(r):
    sigs = ['f "REAL (a : REAL, b : mut INTEGER)"', 'g "(x : INTEGER, y : REAL[3])"', 'h "INTEGER"', 'p "(v : mut BIT[], w : OCTET)"',
            'q "BIT (m : mut BIT, n : REAL[])"']
    out = [f"PRAGMA EXTERN {s}" for s in sigs]
    out.append("DECLARE r REAL\nDECLARE s REAL[2]\nDECLARE k INTEGER\nDECLARE v REAL[3]\nDECLARE w REAL[4]\nDECLARE bits BIT[5]\nDECLARE o OCTET\nDECLARE b BIT")
    args = ["r", "s", "s[1]", "k", "v", "w", "bits", "bits[2]", "o", "b", "1", "2.5", "zz"]
    # argument lists that fit each signature, perturbed in one position now and then
    fitting = {"f": [["r", "s[1]", "k"], ["s[0]", "r", "k"], ["r", "2.5", "k"]], "g": [["k", "v"], ["3", "v"]], "h": [["k"]],
               "p": [["bits", "o"], ["bits", "7"]], "q": [["b", "bits[2]", "s"], ["bits[1]", "b", "v"], ["b", "b", "w"]]}
    for _ in range(r.randrange(4, 12)):
        name = r.choice("fghpq")
        if r.random() < 0.7:
            a = list(r.choice(fitting[name]))
            if r.random() < 0.4 and a:
                a[r.randrange(len(a))] = r.choice(args)
            elif r.random() < 0.15:
                a.append(r.choice(args))
            out.append(f"CALL {name} " + " ".join(a))
        else:
            out.append(f"CALL {name} " + " ".join(r.choice(args) for _ in range(r.randrange(0, 5))))
    return "\n".join(out) + "\n"


def gen_extern_signatures(r):
    out = []
    for k in range(r.randrange(1, 6)):
        ret = r.choice(["", "", "REAL", "INTEGER", "BIT", "OCTET"])
        params = []
        for j in range(r.randrange(0, 4)):
            t = r.choice(["REAL", "INTEGER", "BIT", "OCTET"])
            shape = r.choice(["", "", "[]", "[3]", "[1]"])
            params.append(f"p{j} : {r.choice(['', 'mut '])}{t}{shape}")
        if not ret and not params:
            params.append("x : INTEGER")
        sig = (ret + " " if ret and params else ret) + (f"({', '.join(params)})" if params else "")
        out.append(f'PRAGMA EXTERN e{k} "{sig}"')
    return "\n".join(out) + "\n"


def gen_loop(r):
    n = r.randrange(0, 6) if r.random() < 0.93 else r.choice([255, 256, 65535, 65536, 65537, 70000])
    body = [r.choice(["X 0", "Y 1", "H 0", "CNOT 0 1", "PRAGMA foo", "NOP", "RX(0.5) 2", "MEASURE 0 ro"]) for _ in range(r.randrange(1, 6))]
    defs = r.choice(["", "DEFCAL X 0:\n    Y 0\n", "DECLARE ro BIT\n"])
    if "MEASURE 0 ro" in body and "DECLARE ro BIT" not in defs:
        defs += "DECLARE ro BIT\n"
    return f"n={n} counter={r.choice(['c[0]', 'cnt[2]', 'n[1]'])}\n" + defs + "\n".join(body) + "\n"


def gen_literals(r):
    out = []
    for _ in range(12):
        k = r.randrange(5)
        if k == 0:
            out.append(str(r.choice([0, 1, 7, 255, 2 ** 31, 2 ** 53 + 1, 2 ** 63 - 1, 2 ** 63, 2 ** 64 - 1, 2 ** 64, 10 ** 25])))
        elif k == 1:
            out.append("0x" + "".join(r.choice("0123456789abcdefABCDEF") for _ in range(r.randrange(1, 18))))
        elif k == 2:
            out.append("0b" + "".join(r.choice("01") for _ in range(r.randrange(1, 66))))
        elif k == 3:
            out.append("0o" + "".join(r.choice("01234567") for _ in range(r.randrange(1, 24))))
        else:
            out.append(str(r.randrange(0, 10 ** r.randrange(1, 22))))
    return "\n".join(out) + "\n"


def gen_move_literals(r):
    out = []
    specials = [0, 1, -1, 5, 2 ** 31, 2 ** 32, 2 ** 53 + 1, 2 ** 63 - 1, 2 ** 63, 2 ** 63 + 1, 2 ** 64 - 1, 2 ** 64, -(2 ** 63), -(2 ** 63) - 1, -(2 ** 64), 10 ** 20]
    for _ in range(10):
        v = r.choice(specials) if r.random() < 0.6 else r.randrange(-(2 ** 65), 2 ** 65)
        out.append(f"MOVE ro {v}")
    return "\n".join(out) + "\n"


def gen_real_literals(r):
    """decimal reals with many significant digits, some of them next to a rounding midpoint"""
    out = []
    for _ in range(12):
        k = r.randrange(5)
        if k == 0:
            out.append(f"{r.randrange(1, 1000)}." + "".join(r.choice("0123456789") for _ in range(r.randrange(15, 36))))
        elif k == 1:      # 1 + 2^-53 +- a little: just above / below the midpoint between 1.0 and the next f64
            out.append("1.00000000000000011102230246251565404236316680908203125" + r.choice(["", "1", "0000000001", ""]) if r.random() < 0.5
                       else "1.0000000000000001110223024625156540423631668090820312" + r.choice(["4", "49999", "5"]))
        elif k == 2:
            out.append("0." + "0" * r.randrange(0, 6) + "".join(r.choice("0123456789") for _ in range(r.randrange(18, 30))))
        elif k == 3:
            out.append("".join(r.choice("123456789") for _ in range(r.randrange(17, 25))) + ".5")
        else:
            out.append(f"{r.randrange(1, 10)}." + "".join(r.choice("0123456789") for _ in range(r.randrange(17, 25))) + f"e{r.choice(['-', '', '+'])}{r.randrange(0, 30)}")
    return "\n".join(out) + "\n"


def gen_long_lines(r):
    """lines longer than any snippet a diagnostic might cut out, with multi-byte characters and something that does
    not lex somewhere in them (no-panic property)"""
    filler = ["X 0 ", "RX(0.5) 1 ", "# comment ", "é", "→", "日本", "ß", " ", "q", " "]
    bad = ["?", "$", "`", "~", "€", "\\", "'"]
    line = ""
    while len(line.encode()) < r.randrange(60, 140):
        line += r.choice(filler)
    pos = r.randrange(0, len(line) + 1)
    line = line[:pos] + r.choice(bad) + line[pos:]
    return r.choice(["", "DECLARE ro BIT\n"]) + line + r.choice(["\n", ""])


def gen_statements(r):
    """nearly valid statements with extreme or oddly placed literals (no-panic property)"""
    lit = lambda: r.choice(["0", "1", "-1", "+1", "+1.0", "-1.5", "9223372036854775807", "-9223372036854775808", "9223372036854775808",
                            "18446744073709551615", "18446744073709551616", "-18446744073709551615", "1e400", "-0", "0x10", "1.5i", "i", "pi"])
    forms = ["MOVE ro {l}", "ADD ro {l}", "SUB ro[0] {l}", "MUL ro {l}", "DIV ro {l}", "AND ro {l}", "IOR ro {l}", "XOR ro {l}", "EQ ro ro {l}", "GT ro ro[1] {l}",
             "LT ro ro {l}", "MOVE ro[{l}] 1", "DECLARE x BIT[{l}]", "LOAD ro ro ro[{l}]", "STORE ro ro {l}", "RX({l}) 0", "RX({l}*{l}) 0", "DELAY 0 {l}",
             "X {l}", "MEASURE {l} ro", "JUMP-WHEN @a ro[{l}]", "PRAGMA foo {l}", "SHIFT-PHASE 0 \"rf\" {l}", "FENCE {l}", "RESET {l}", "CALL f {l}",
             "DECLARE y REAL[2] SHARING ro OFFSET {l} BIT", "DEFGATE G AS PERMUTATION:\n    {l}, 1", "PULSE 0 \"rf\" flat(duration: {l}, iq: {l})",
             "CAPTURE 0 \"rf\" flat(duration: 1, iq: 1) ro[{l}]", "RAW-CAPTURE 0 \"rf\" {l} ro", "ro[0", "MOVE ro[", "RX( 0", "EQ ro ro", "NONBLOCKING", "NONBLOCKING X 0"]
    # (now and then without a final newline: the last token of the text is then the last token of a statement)
    return "DECLARE ro BIT[2]\n" + "\n".join(r.choice(forms).replace("{l}", lit(), 1).replace("{l}", lit()) for _ in range(r.randrange(1, 5))) + r.choice(["\n", "\n", ""])


def gen_tokens(r):
    """token soup for the no-panic property"""
    toks = ["DECLARE", "ro", "BIT", "REAL[2]", "MOVE", "ADD", "ro[0]", "ro[", "]", "1", "-1", "+1", "1.5", "-", "+", "0x", "0x1F",
            "99999999999999999999", "-9223372036854775808", "X", "0", "q", "RX(", "pi", ")", "%t", "(", "DEFCAL", ":", "\n    ", "\n",
            "MEASURE", "PRAGMA", "EXTERN", "\"s\"", "JUMP-WHEN", "@a", "LABEL", "DEFFRAME", "\"rf\"", "PULSE", "NONBLOCKING", "flat(",
            "duration:", "iq:", ",", "CALL", "f", "DELAY", "FENCE", "SET-PHASE", "SHARING", "OFFSET", "DEFGATE", "AS", "MATRIX", "i", "^", "*", "/",
            "cis(", "sqrt(", "EQ", "LOAD", "STORE", "CONVERT", "EXCHANGE", "NEG", "NOT", "HALT", "WAIT", "RESET", "INCLUDE", "DEFWAVEFORM", "CONTROLLED", "DAGGER", "FORKED"]
    return " ".join(r.choice(toks) for _ in range(r.randrange(1, 14))) + "\n"


def gen_names(r):
    def ident():
        s = r.choice("abcTHETAxyzQ") + "".join(r.choice("abcXYZ_019") for _ in range(r.randrange(0, 6)))
        return s if s.lower() not in ("pi", "i", "sin", "cos", "exp", "cis", "sqrt") else s + "q"
    names = [ident() for _ in range(3)]
    out = [f"DECLARE {n} REAL" for n in dict.fromkeys(names)]
    for _ in range(4):
        out.append(f"RX({r.choice(names)}{r.choice(['', '[0]', ' * 2', ' + ' + r.choice(names)])}) 0")
    # gate, label, waveform, frame and pragma names in mixed case, including case variants of the standard gates
    gate = r.choice(["swap", "Cz", "rx", "h", "cnot", "Xy", "myGate", "ISWAP", "cPhase"])
    if r.random() < 0.5:
        out.append(f"DEFGATE {gate} AS MATRIX:\n    1, 0\n    0, 1")
    out.append(f"{gate} {r.choice('01')}")
    out.append(f"LABEL @{r.choice(['Loop', 'END', 'start_Here'])}")
    out.append(f"PRAGMA {r.choice(['Foo', 'bar', 'INITIAL_rewiring'])} x")
    if r.random() < 0.5:
        out.append(f"DEFWAVEFORM {r.choice(['myWave', 'W', 'gaussQ', 'my-wf', 'q0-q1/CZ-pulse', 'ro-pulse_x'])}:\n    1, 2")
    if r.random() < 0.3:
        out.append(f"DEFGATE {r.choice(['my-gate', 'A-b-C'])} AS MATRIX:\n    1, 0\n    0, 1")
    if r.random() < 0.5:
        fn = r.choice(["Rf", "ro_RX", "XY"])
        out.append(f'DEFFRAME 0 "{fn}":\n    SAMPLE-RATE: 1.0\nPULSE 0 "{fn}" {r.choice(["Flat", "gaussian", "myWave"])}(duration: 1, iq: 1)')
    return "\n".join(out) + "\n"


# kind -> (generator, how many inputs)
GENERATORS = {
    "frame_order": [(gen_schedule, 300)],
    "memory_order": [(gen_memory_schedule, 250), (gen_schedule, 100)],
    "frame_match": [(gen_frame_match, 250), (gen_frame_match_small, 150)],
    "real_literal": [(gen_real_literals, 150)],
    "memory_accesses": [(gen_memory_accesses, 200)],
    "type_check_oracle": [(gen_type_check, 300), (gen_type_check_verdicts, 300)],
    "cfg_offsets": [(gen_cfg, 400)],
    "instruction_views": [(gen_program_defs, 250)],
    "used_qubits_other_ops": [(gen_two_programs, 200)],
    "concat": [(gen_two_programs, 150), (gen_two_programs_with_frames, 150)],
    "serialize_repeat": [(gen_redefinitions, 200)],
    "eval_subst": [(gen_eval_subst, 150)],
    "simplify_value": [(gen_simplify, 200), (gen_simplify_shapes, 200)],
    "source_map_tiles": [(gen_calibrations, 250)],
    "nested_map_tiles": [(gen_calibrations, 250)],
    "expand_terminates": [(gen_expansions, 200)],
    "gate_match": [(gen_gate_match, 250)],
    "measure_match": [(gen_measure_match, 200)],
    "call_resolve": [(gen_call, 250)],
    "extern_roundtrip": [(gen_extern_signatures, 200)],
    "loop_runs": [(gen_loop, 150)],
    "expr_literal": [(gen_literals, 100)],
    "literal_exact": [(gen_move_literals, 100)],
    "parse_program": [(gen_tokens, 1000), (gen_statements, 1000), (gen_long_lines, 500)],
    "name_spelling": [(gen_names, 150)],
}


def generate(kind, seed=20260922):
    out = []
    for g, n in GENERATORS.get(kind, []):
        r = random.Random(f"{seed}:{kind}:{g.__name__}")
        out += [g(r) for _ in range(n)]
    return out
