"""Mechanical, positional extraction of Rust items from /repo source files.

An item is located by (kind, name) inside an optional container (an `impl`
whose header is given literally, a `trait`, or a `mod`).  The extracted span
starts at the first attribute / doc comment attached to the item and ends at
its closing brace or semicolon.  Nothing inside the span is rewritten here;
normalisation is a separate, logged step (normalize.py).
"""

import hashlib
import os
import re

from rustlex import mask, match_bracket, find_top_level, norm_ws


class ExtractError(Exception):
    """lost anchor / missing item: the check is undecided (exit 2)"""


class Source:
    _cache = {}

    def __init__(self, root, rel):
        self.rel = rel
        self.path = os.path.join(root, rel)
        try:
            with open(self.path, encoding="utf-8") as f:
                self.text = f.read()
        except OSError as e:
            raise ExtractError(f"cannot read {self.path}: {e}")
        self.masked = mask(self.text)
        # brace depth before each char
        d, depth = [], 0
        for ch in self.masked:
            if ch == "}":
                depth -= 1
            d.append(depth)
            if ch == "{":
                depth += 1
        self.depth = d
        self.line_starts = [0]
        for m in re.finditer("\n", self.text):
            self.line_starts.append(m.end())

    @classmethod
    def get(cls, root, rel):
        key = (root, rel)
        if key not in cls._cache:
            cls._cache[key] = Source(root, rel)
        return cls._cache[key]

    def line_of(self, pos):
        import bisect
        return bisect.bisect_right(self.line_starts, pos)  # 1-based


KIND_RE = {
    "fn": r"\bfn\s+{name}\b",
    "struct": r"\bstruct\s+{name}\b",
    "enum": r"\benum\s+{name}\b",
    "union": r"\bunion\s+{name}\b",
    "trait": r"\btrait\s+{name}\b",
    "mod": r"\bmod\s+{name}\b",
    "const": r"\bconst\s+{name}\b",
    "static": r"\bstatic\s+{name}\b",
    "type": r"\btype\s+{name}\b",
    "macro": r"\bmacro_rules!\s*{name}\b",
}


def _container_span(src, container):
    """(body_start, body_end, depth_inside) of a container; None → whole file"""
    if container is None:
        return 0, len(src.text), 0
    lo, hi, depth = 0, len(src.text), 0
    for kind, name in container:
        if kind == "impl":
            # `HEADER#k` selects the k-th impl block with that header (several inherent impls may share one)
            ordinal = None
            mo = re.match(r"^(.*)#(\d+)$", name.strip())
            if mo:
                name, ordinal = mo.group(1), int(mo.group(2))
            want = norm_ws(name)
            cands = []
            for m in re.finditer(r"\bimpl\b", src.masked[lo:hi]):
                p = lo + m.start()
                if src.depth[p] != depth:
                    continue
                b = find_top_level(src.masked, "{;", p)
                if b < 0 or src.masked[b] != "{":
                    continue
                header = norm_ws(src.text[p:b])
                if header == want:
                    cands.append((p, b))
            if not cands:
                raise ExtractError(f"impl header {name!r} not found in {src.rel}")
            if ordinal is None and len(cands) > 1:
                raise ExtractError(f"ambiguous impl header {name!r} in {src.rel} ({len(cands)} blocks; use #k)")
            if ordinal is not None and ordinal > len(cands):
                raise ExtractError(f"impl header {name!r}#{ordinal} not found in {src.rel}")
            p, b = cands[(ordinal or 1) - 1]
        else:
            p = _find_keyword(src, kind, name, lo, hi, depth)
            b = find_top_level(src.masked, "{;", p)
            if b < 0 or src.masked[b] != "{":
                raise ExtractError(f"{kind} {name} has no body in {src.rel}")
        e = match_bracket(src.masked, b)
        lo, hi, depth = b + 1, e, depth + 1
    return lo, hi, depth


def _find_keyword(src, kind, name, lo, hi, depth):
    rx = re.compile(KIND_RE[kind].format(name=re.escape(name)))
    hits = [lo + m.start() for m in rx.finditer(src.masked[lo:hi]) if src.depth[lo + m.start()] == depth]
    if kind == "const":
        # `const fn` is not a const item
        hits = [h for h in hits if not re.match(r"const\s+fn\b", src.masked[h:h + 20])]
    if not hits:
        raise ExtractError(f"{kind} {name} not found in {src.rel}")
    if len(hits) > 1:
        raise ExtractError(f"{kind} {name} is ambiguous in {src.rel} ({len(hits)} candidates)")
    return hits[0]


def _item_start(src, p, lo):
    """walk back from keyword position p over qualifiers, attributes, doc comments"""
    # beginning of the line holding the keyword (qualifiers like `pub(crate) const` live on it)
    ls = src.text.rfind("\n", 0, p) + 1
    start = max(ls, lo)
    while True:
        # previous line
        if start <= lo:
            break
        pe = start - 1  # the '\n'
        ps = src.text.rfind("\n", 0, pe) + 1
        if ps < lo:
            break
        raw = src.text[ps:pe].strip()
        m = src.masked[ps:pe].strip()
        if raw.startswith("//"):
            start = ps
            continue
        if m.endswith("]"):
            # attribute, possibly multi-line: find its `#[`
            close = ps + src.masked[ps:pe].rfind("]")
            k = close
            d = 0
            while k >= lo:
                ch = src.masked[k]
                if ch == "]":
                    d += 1
                elif ch == "[":
                    d -= 1
                    if d == 0:
                        break
                k -= 1
            if k > 0 and src.masked[k - 1] == "#" or (k > 1 and src.masked[k - 2:k] == "#!"):
                a = src.text.rfind("\n", 0, k) + 1
                if src.masked[a:k - 1].strip() == "":
                    start = a
                    continue
            break
        break
    return start


def _item_end(src, kind, p):
    if kind in ("const", "static", "type"):
        e = find_top_level(src.masked, ";", p)
        if e < 0:
            raise ExtractError("unterminated item")
        return e + 1
    b = find_top_level(src.masked, "{;", p)
    if b < 0:
        raise ExtractError("unterminated item")
    if src.masked[b] == ";":
        return b + 1
    e = match_bracket(src.masked, b)
    # tuple/brace struct followed by nothing; macro_rules! name { } ; etc.
    return e + 1


class Extracted:
    def __init__(self, src, start, end, kind, name, container):
        self.src, self.start, self.end = src, start, end
        self.kind, self.name, self.container = kind, name, container
        self.text = src.text[start:end]
        self.first_line = src.line_of(start)
        self.last_line = src.line_of(end - 1)
        self.sha256 = hashlib.sha256(self.text.encode()).hexdigest()

    def describe(self):
        c = "".join(f"{k} {n} / " for k, n in (self.container or []))
        return f"{self.src.rel}:{self.first_line}-{self.last_line} {c}{self.kind} {self.name}"


def resolve_container(root, rel, kind, name, container):
    """several inherent impl blocks may share one header: pick the one that holds the wanted item"""
    if not container:
        return container
    src = Source.get(root, rel)
    try:
        _container_span(src, container)
        return container
    except ExtractError as e:
        if "ambiguous impl header" not in str(e):
            raise
    last_k, last_n = container[-1]
    found = []
    for k in range(1, 12):
        cand = container[:-1] + [(last_k, f"{last_n}#{k}")]
        try:
            lo, hi, depth = _container_span(src, cand)
        except ExtractError:
            break
        try:
            _find_keyword(src, kind, name, lo, hi, depth)
            found.append(cand)
        except ExtractError:
            pass
    if len(found) != 1:
        raise ExtractError(f"{kind} {name}: {len(found)} of the impl blocks `{last_n}` in {rel} contain it")
    return found[0]


def extract(root, rel, kind, name, container=None):
    src = Source.get(root, rel)
    if container and kind != "impl":
        container = resolve_container(root, rel, kind, name, container)
    lo, hi, depth = _container_span(src, container)
    if kind == "impl":
        blo, bhi, _ = _container_span(src, (container or []) + [("impl", name)])
        # span of the whole impl: from `impl` keyword to the closing brace
        p = src.masked.rfind("impl", lo, blo)
        # make sure we take the one whose body opens at blo-1
        for m in re.finditer(r"\bimpl\b", src.masked[lo:blo]):
            q = lo + m.start()
            if src.depth[q] == depth and find_top_level(src.masked, "{;", q) == blo - 1:
                p = q
        start = _item_start(src, p, lo)
        return Extracted(src, start, bhi + 1, kind, name, container)
    p = _find_keyword(src, kind, name, lo, hi, depth)
    start = _item_start(src, p, lo)
    end = _item_end(src, kind, p)
    return Extracted(src, start, end, kind, name, container)


def impl_header(root, rel, header, container=None):
    """literal text of the impl header up to (not including) the `{`"""
    src = Source.get(root, rel)
    lo, hi, depth = _container_span(src, container)
    blo, bhi, _ = _container_span(src, (container or []) + [("impl", header)])
    for m in re.finditer(r"\bimpl\b", src.masked[lo:blo]):
        q = lo + m.start()
        if src.depth[q] == depth and find_top_level(src.masked, "{;", q) == blo - 1:
            return src.text[q:blo - 1].strip()
    raise ExtractError(f"impl header {header!r} not found")
