"""Driver: property → units → Verus → obligations → exit code + evidence."""

import argparse
import concurrent.futures as cf
import hashlib
import json
import os
import re
import shutil
import subprocess
import sys
import time
import tomllib

import build
import run_verus
from extract import ExtractError

VERIF = build.VERIF
REPO = os.environ.get("VERIF_REPO", "/repo")
WORK = os.path.join(VERIF, ".work")
ASSUME_PAT = re.compile(
    r"\b(assume\s*\(|admit\s*\(|external_body|assume_specification|axiom\b|uninterp\b|external_type_specification|"
    r"exec_allows_no_decreases_clause|external_fn_specification|#\[verifier::external\]|accept_recursive_types|"
    r"reject_recursive_types)")


def load_prop(pid):
    p = os.path.join(VERIF, "props", pid + ".toml")
    if not os.path.exists(p):
        raise SystemExit(f"no such property config: {p}")
    with open(p, "rb") as f:
        return tomllib.load(f)


def load_known():
    p = os.path.join(VERIF, "known_findings.json")
    if not os.path.exists(p):
        return {"findings": [], "fixed": []}
    with open(p) as f:
        return json.load(f)


def unit_path(u):
    return os.path.join(VERIF, "units", u + ".vu")


def run_unit(pid, unit, seed, rlimit, twin=False, tag=""):
    wd = os.path.join(WORK, pid, unit + tag)
    os.makedirs(wd, exist_ok=True)
    force = {}
    for _round in range(4):
        text, lines, log, meta = build.build_unit(unit_path(unit), REPO, twin=twin, force_degrade=force)
        gen = os.path.join(wd, "gen.rs")
        with open(gen, "w") as f:
            f.write(text)
        res = run_verus.run(gen, lines, rlimit=rlimit, seed=seed)
        # Verus / rustc rejected text that lies inside extracted functions (a construct outside the subset, a woven
        # hint naming a local that no longer exists, ...): those functions are set aside (contract assumed, their
        # own obligations undecided) and the unit is tried again, so that the other properties can be decided
        if not res.get("compile_error") or res.get("timeout"):
            break
        rejected = [d for d in res["diags"] if d.kind == "unsupported"]
        items = {d.item for d in rejected}
        already = {dg["item"] for dg in log.degraded}
        if not rejected or None in items or not (items - already) or _round == 3:
            break
        for d in rejected:
            force.setdefault(d.item, f"anchor lost in {d.item}: Verus rejected the woven text ({d.message[:160]})")
    if not twin and any(d.kind == "rlimit" for d in res["diags"]):
        # one retry with 4x the resource limit and another seed (DESIGN §2.1)
        res2 = run_verus.run(gen, lines, rlimit=rlimit * 4, seed=(seed or 0) + 7919)
        res2["retried_after_rlimit"] = True
        res = res2
    return {"unit": unit, "gen": gen, "text": text, "lines": lines, "log": log, "meta": meta, "res": res}


def safety_id(line_obj):
    rel, ln = line_obj.origin[1], line_obj.origin[2]
    return f"{rel}:{ln}"


def labels_in(lines, pid):
    s = []
    for l in lines:
        for lab in (l.label or "").split(","):
            if lab.startswith(pid + ".") and lab not in s and not lab.endswith(("~hint", "~call")):
                s.append(lab)
    return s


def scan_assumptions(lines):
    found = []
    for i, l in enumerate(lines):
        m = ASSUME_PAT.search(l.text)
        if m and not l.text.strip().startswith("//") and "// split: proved in" not in l.text:
            o = l.origin
            where = f"{o[1]}:{o[2]}" if o[0] in ("repo", "spec") else f"generated:{o[1]}"
            shown = l.text.strip()
            if shown.startswith("#[") and shown.endswith("]") and i + 1 < len(lines):
                shown += " " + lines[i + 1].text.strip()       # (an attribute line: name what it is attached to)
            found.append(f"{m.group(1).strip(' (')} @ {where}: {shown[:200]}")
    return found


def source_text_of(lines, rel, ln):
    for l in lines:
        if l.origin[0] == "repo" and l.origin[1] == rel and l.origin[2] == ln:
            return l.text.strip()
    return ""


def check(pid, tier, seed):
    t0 = time.time()
    cfg = load_prop(pid)
    known = load_known()
    rlimit = int(cfg.get("rlimit", run_verus.RLIMIT_DEFAULT))
    units = cfg["units"]
    undecided = []
    runs = []
    try:
        with cf.ThreadPoolExecutor(max_workers=min(4, len(units))) as ex:
            futs = [ex.submit(run_unit, pid, u, seed, rlimit) for u in units]
            for f in futs:
                runs.append(f.result())
    except ExtractError as e:
        print(f"UNDECIDED property={pid}: {e}")
        write_evidence(pid, tier, seed, cfg, [], [], [], [f"extraction failed: {e}"], time.time() - t0, undecided=[str(e)])
        # undecided by the verifier: the stored inputs still decide what they can (both tiers)
        _info, sweep_lines, sweep_rc = candidate_sweep(pid, cfg, False, tier)
        for l in sweep_lines:
            print(l)
        if sweep_rc == 1:
            return 1
        return 2

    obligations = []      # ids
    failed = {}           # id -> [diag]
    degraded_notes = []
    for r in runs:
        res, lines, meta = r["res"], r["lines"], r["meta"]
        labs = labels_in(lines, pid)
        obligations += [f"{lab}" for lab in labs]
        carries_safety = meta.get("safety") == pid or pid in (meta.get("safety_props") or [])
        exec_fns = [f for f in res["functions"] if f["mode"] == "exec"]
        if carries_safety:
            obligations += [f"{pid}.safety:{f['function'].split('::', 1)[-1]}" for f in exec_fns]
        # functions set aside in this run (an anchor of their weaving was lost): their own obligations are undecided;
        # properties without an obligation in them are decided with the function's contract assumed (as a callee's is)
        for dg in r["log"].degraded:
            mine = [l.replace("~hint", "") for l in dg["labels"] if l.startswith(pid + ".")]
            if mine or carries_safety:
                undecided.append(f"{r['unit']}: {dg['reason']}" + (f" — not decided: {', '.join(sorted(set(mine)))}" if mine else " — its safety obligations are not decided"))
            else:
                degraded_notes.append(f"[{r['unit']}] {dg['item']} was NOT verified in this run ({dg['reason']}); "
                                      f"no obligation of {pid} lies in it, its contract is assumed like any callee's")
        if res.get("timeout"):
            undecided.append(f"{r['unit']}: verus timed out")
            continue
        if res["compile_error"]:
            msgs = [f"{d.message} @ {d.obligation}" for d in res["diags"] if d.kind == "unsupported"][:6]
            if not msgs:
                msgs = [res["raw_stderr"][-800:]]
            undecided.append(f"{r['unit']}: Verus rejected the generated text (unsupported / type error): " + " | ".join(msgs))
            continue
        if not res["functions"] and not labs:
            undecided.append(f"{r['unit']}: no obligations generated")
        for d in res["diags"]:
            if d.kind == "label":
                for lab in d.obligation.split(","):
                    if lab.startswith(pid + "."):
                        failed.setdefault(lab, []).append(d)
                # labels of other properties are decided by their own check
            elif d.kind == "safety":
                rel, ln = d.obligation.rsplit(":", 1)
                txt = source_text_of(lines, rel, int(ln))
                if carries_safety:
                    oid = f"{pid}.safety@{rel}:{txt}"
                    d.where = d.obligation
                    failed.setdefault(oid, []).append(d)
                else:
                    # no panic-freedom is claimed here: a possible overflow / index failure inside function F leaves
                    # undecided what F's own obligations say (they hold only if F returns); properties with no
                    # obligation in F are decided with F's contract assumed, as for any callee
                    it = next((l.item for l in lines if l.origin[0] == "repo" and l.origin[1] == rel and l.origin[2] == int(ln)), None)
                    mine = sorted({lab.replace("~hint", "") for l in lines if it is not None and l.item == it
                                   for lab in (l.label or "").split(",") if lab.startswith(pid + ".")})
                    if it is None or mine:
                        undecided.append(f"{r['unit']}: safety obligation failed at {d.obligation} ({d.message}) "
                                         f"but the unit does not carry safety for {pid}"
                                         + (f" — not decided: {', '.join(mine)}" if mine else ""))
                    else:
                        degraded_notes.append(f"[{r['unit']}] possible {d.message} at {d.obligation} inside {it}: no obligation "
                                              f"of {pid} lies in that function (its contract is assumed like any callee's)")
            elif d.kind == "rlimit":
                undecided.append(f"{r['unit']}: resource limit at {d.obligation}")
            elif d.kind == "aux":
                dl = meta.get("default")
                if dl and dl.startswith(pid + "."):
                    failed.setdefault(dl, []).append(d)
                else:
                    undecided.append(f"{r['unit']}: unlabelled proof step failed at {d.obligation} ({d.message})")
        # every labelled function must actually have been sent to the solver
        if res["results"] is not None and res["results"].get("verified", 0) + res["results"].get("errors", 0) == 0:
            undecided.append(f"{r['unit']}: Verus verified zero functions")

    expected = cfg.get("expected_obligations")
    # ---- thorough tier: vacuity twins + second seed ------------------------------------
    twins_info = None
    if tier == "thorough" and not undecided:
        twins_info = []
        for u in units:
            try:
                tr = run_unit(pid, u, seed, rlimit, twin=True, tag=".twin")
            except ExtractError as e:
                undecided.append(f"{u}: twin generation failed: {e}")
                continue
            vac = [l.label for l in tr["lines"] if l.label and l.label.startswith("VAC.")]
            vac = sorted(set(vac))
            failed_vac = set(d.obligation for d in tr["res"]["diags"] if d.kind == "label" and d.obligation.startswith("VAC."))
            # a resource-limit hit while trying to prove `false` also means `false` was not proved
            # (the original unit verified, so a function that now fails does so because of its twin clause)
            if any(d.kind == "rlimit" for d in tr["res"]["diags"]):
                unproved_fns = {f["function"].split("::")[-1] for f in tr["res"]["functions"] if not f["success"]}
                for v in vac:
                    if v.split(".")[-1] in unproved_fns:
                        failed_vac.add(v)
            if tr["res"]["compile_error"]:
                undecided.append(f"{u}: twin rejected by Verus")
                continue
            not_failing = [v for v in vac if v not in failed_vac]
            twins_info.append({"unit": u, "twins": len(vac), "failed_as_expected": len(vac) - len(not_failing),
                               "vacuous": not_failing})
            if not_failing:
                undecided.append(f"{u}: VACUOUS contract — `false` became provable at {not_failing}")
        # stability: second seed
        for u in units:
            r2 = run_unit(pid, u, (seed or 0) + 104729, rlimit, tag=".seed2")
            f2 = set(d.obligation for d in r2["res"]["diags"] if d.kind in ("label", "safety"))
            r1 = next(r for r in runs if r["unit"] == u)
            f1 = set(d.obligation for d in r1["res"]["diags"] if d.kind in ("label", "safety"))
            if f1 != f2:
                undecided.append(f"{u}: unstable across solver seeds: {sorted(f1 ^ f2)}")

    # ---- known findings ----------------------------------------------------------------
    kf = [k for k in known.get("findings", []) if k["property"] == pid]
    kf_ids = {k["obligation"] for k in kf}
    violations = [o for o in failed if o not in kf_ids]
    known_hit = [o for o in failed if o in kf_ids]

    discharged = [o for o in obligations if o not in failed]
    # safety failures are keyed by source text, not by function: count them against obligations too.
    # Obligations that are listed known findings are reported separately (KNOWN-FINDING lines, evidence key
    # known_findings_hit) and are not part of what this run claims to have proved.
    n_obl = len([o for o in obligations if o not in known_hit]) + len([o for o in failed if o not in obligations and o not in known_hit])
    assumptions = []
    for r in runs:
        assumptions += [f"[{r['unit']}] {a}" for a in scan_assumptions(r["lines"])]
    assumptions += degraded_notes

    rc = 0
    out_lines = ["note: " + n for n in degraded_notes]
    for k in kf:
        if k.get("replay_only"):
            # a defect outside the reach of every contract, seen only by running its stored input on the real crate
            what = " ".join(str(k.get("what", "")).split())
            try:
                import witness
                err = witness.build(REPO)
                r = None if err else witness.run_one(k["witness"]["kind"], k["witness"]["input"])
            except Exception as e:
                err, r = str(e), None
            if r is None:
                out_lines.append(f"note: known finding {k['obligation']} could not be replayed ({str(err)[-200:]})")
            elif r["violated"]:
                out_lines.append(f"KNOWN-FINDING: property={pid} {k['obligation']} {what}")
                known_hit.append(k["obligation"])
            else:
                out_lines.append(f"note: known finding {k['obligation']} did not fail on this tree")
            continue
        if k["obligation"] in failed:
            what = " ".join(str(k.get("what", "")).split())
            out_lines.append(f"KNOWN-FINDING: property={pid} {k['obligation']} {what}")
        else:
            # listed but no longer failing: say so (not an error)
            out_lines.append(f"note: known finding {k['obligation']} did not fail on this tree")
    replay_paths = []
    if violations:
        real = []
        for o in violations:
            path, witnessed = write_replay(pid, o, failed[o], cfg, runs)
            # A woven proof step (`~hint`) that fails while the obligation it serves was itself discharged is a failed
            # PROOF, not a failed obligation: the code may have changed shape under a hint.  It is a violation only
            # with an input that fails on the real crate; otherwise the obligation is undecided (exit 2).
            if o.endswith("~hint") and o[:-len("~hint")] not in failed and not witnessed:
                d = failed[o][0]
                undecided.append(f"a proof step for {o[:-len('~hint')]} failed ({d.message}) while the obligation itself was "
                                 f"discharged under it, and no stored input fails on the real crate: not decided")
                try:
                    os.unlink(path)
                except OSError:
                    pass
                continue
            real.append(o)
            rc = 1
            replay_paths.append(path)
            suffix = "" if witnessed else " no-failing-input-found"
            out_lines.append(f"VIOLATION property={pid} replay={path}{suffix}")
            d = failed[o][0]
            out_lines.append(f"  obligation {o}: {d.message} (at {getattr(d, 'where', d.obligation)})")
        violations = real
    # ---- thorough tier (and the quick tier when the verifier is undecided): the stored candidate inputs are also run
    # against the real crate.  This decides nothing about
    # the contracts; but an input on which the real code violates the property's own statement is a violation whatever
    # the verifier's verdict was (e.g. when a change moved the code out of the verifier's reach: exit 2 above).
    sweep_info = None
    if True:    # (both tiers: replaying the stored inputs costs a second or two once the replay binary is built)
        sweep_info, sweep_lines, sweep_rc = candidate_sweep(pid, cfg, bool(violations), tier)
        out_lines += sweep_lines
        if sweep_rc == 1:
            rc = 1
    if undecided and rc == 0:
        rc = 2
    for u in undecided:
        out_lines.append(f"UNDECIDED property={pid}: {u}")
    if expected is not None and rc == 0 and len(obligations) != expected:
        out_lines.append(f"UNDECIDED property={pid}: obligation count {len(obligations)} differs from the recorded {expected}")
        rc = 2
    if rc == 0 and len(obligations) == 0:
        out_lines.append(f"UNDECIDED property={pid}: zero obligations")
        rc = 2
    wall = time.time() - t0
    write_evidence(pid, tier, seed, cfg, runs, obligations, failed, assumptions, wall, undecided=undecided,
                   twins=twins_info, known_hit=known_hit, violations=violations, n_obl=n_obl, sweep=sweep_info)
    for l in out_lines:
        print(l)
    status = {0: "HOLDS", 1: "VIOLATED", 2: "UNDECIDED"}[rc]
    print(f"{pid}: {status} — {len(discharged)}/{n_obl} obligations discharged by verus/z3 in {wall:.1f}s "
          f"({sum(len(r['res']['functions']) for r in runs)} functions sent to the solver)")
    return rc


def candidate_sweep(pid, cfg, already_violated, tier="quick"):
    lines, rc = [], 0
    try:
        import witness
        results = witness.sweep(pid, cfg, REPO, generated=("thorough" if tier == "thorough" else "quick"))
    except Exception as e:
        return {"error": str(e)}, [f"note: candidate inputs could not be replayed: {e}"], 0
    # an input that is the witness of a listed known finding is expected to fail: it is not a new violation
    known_inputs = {(k.get("witness") or {}).get("input") for k in load_known().get("findings", []) if k["property"] == pid}
    bad = [r for r in results if r["violated"] and r["input"] not in known_inputs]
    gen = [r for r in results if r.get("generated")]
    info = {"candidates_replayed": len(results) - len(gen), "violating": len(bad),
            "violating_but_known_finding": len([r for r in results if r["violated"] and r["input"] in known_inputs])}
    if gen:
        per_kind = {}
        for r in gen:
            per_kind[r["kind"]] = per_kind.get(r["kind"], 0) + 1
        info["bounded_exploration"] = {"generated_inputs_per_kind": per_kind, "outside_the_grammar": len([r for r in gen if r.get("unparsable")]),
                                       "note": "BOUNDED: deterministic pseudo-random inputs from a fixed alphabet (engine/gen_inputs.py), "
                                               "evaluated by the replay oracle on the real crate; testing, never counted as proof"}
    if bad and not already_violated:
        os.makedirs(os.path.join(VERIF, "replay", "out"), exist_ok=True)
        for k, r in enumerate(bad[:3]):
            path = os.path.join(VERIF, "replay", "out", f"{pid}-replayed-candidate-{k}.json")
            with open(path, "w") as f:
                json.dump({"property": pid, "obligation": f"{pid}.replay:{r['kind']}", "verifier": "none (replay of a stored input on the real crate)",
                           "verifier_output": "no obligation of the property failed or could be decided; the stored input below "
                                              "violates the property's statement when run against the real code",
                           "witness": r}, f, indent=1)
            lines.append(f"VIOLATION property={pid} replay={path}")
            lines.append(f"  stored input of kind {r['kind']} violates the property on the real crate: "
                         + " ".join((r['stdout'] or r['stderr']).strip().split())[-300:])
        rc = 1
    return info, lines, rc


def write_replay(pid, oid, diags, cfg, runs):
    os.makedirs(os.path.join(VERIF, "replay", "out"), exist_ok=True)
    safe = re.sub(r"[^\w.\-]+", "_", oid)[:120]
    path = os.path.join(VERIF, "replay", "out", f"{pid}-{safe}.json")
    rendered = "\n".join(d.rendered for d in diags)[:6000]
    doc = {"property": pid, "obligation": oid, "verifier": "verus/z3",
           "verifier_output": rendered,
           "source": [getattr(d, "where", d.obligation) for d in diags],
           "witness": None}
    witnessed = False
    try:
        import witness
        w = witness.find(pid, oid, cfg, REPO)
        if w is not None:
            doc["witness"] = w
            witnessed = True
    except Exception as e:  # witness search is best effort, never decides
        doc["witness_error"] = str(e)
    with open(path, "w") as f:
        json.dump(doc, f, indent=1)
    return path, witnessed


def write_evidence(pid, tier, seed, cfg, runs, obligations, failed, assumptions, wall, undecided=None, twins=None,
                   known_hit=None, violations=None, n_obl=None, sweep=None):
    evdir = os.environ.get("VERIF_EVIDENCE_DIR") or os.path.join(VERIF, "evidence")  # (scratch dir when trying seeded changes)
    os.makedirs(evdir, exist_ok=True)
    fns, under_contract, norms, outlined, attrs = [], [], {}, [], []
    cmds = []
    smt_ms = 0.0
    for r in runs:
        cmds.append(r["res"]["cmd"].replace(VERIF + "/", ""))
        for f in r["res"]["functions"]:
            fns.append({"unit": r["unit"], "function": f["function"].split("::", 1)[-1], "mode": f["mode"],
                        "solver_ms": round(f["ms"], 2), "rlimit": f["rlimit"], "success": f["success"]})
            smt_ms += f["ms"]
        under_contract += [dict(e, unit=r["unit"]) for e in r["log"].extracted]
        for k, v in r["log"].counts.items():
            norms[k] = norms.get(k, 0) + v
        outlined += [dict(o, unit=r["unit"]) for o in r["log"].outlined]
        attrs += r["log"].attrs
    failed = failed or {}
    n_obl = n_obl if n_obl is not None else len(obligations)
    discharged = len([o for o in obligations if o not in failed])
    samples = []
    for r in runs:
        labs = labels_in(r["lines"], pid)[:4]
        for lab in labs:
            txt = [l.text.strip() for l in r["lines"] if lab in (l.label or "").split(",") and not l.text.strip().startswith("//[")][:6]
            samples.append({"obligation": lab, "unit": r["unit"], "clause": " ".join(txt)[:400],
                            "status": "failed" if lab in failed else "discharged"})
    if not samples:
        samples = [{"obligation": o} for o in obligations[:3]] or [{"note": "no obligations generated"}]
    trusted = list(cfg.get("trusted_base", [])) + [
        "Verus 0.2026.09.13 + Z3 (verifier and its Rust front end, toolchain 1.98.1)",
        "engine/extract.py + normalize.py: extraction and the logged normalisations N0–N3 preserve the meaning of the extracted functions",
    ]
    ev = {
        "property_id": pid, "tier": tier, "seed": int(seed or 0), "level": "proof",
        "coverage": {
            "obligations": n_obl, "discharged": discharged,
            "checker_cmd": " ; ".join(cmds) if cmds else "verus (not reached: extraction failed)",
            "trusted_base": trusted,
            "samples": samples,
            "back_end": "verus 0.2026.09.13 / z3 (all obligations)",
            "solver_ms_total": round(smt_ms, 1),
            "functions_sent_to_solver": fns,
            "functions_under_contract": under_contract,
            "normalizations": norms,
            "replacements": [dict(x) for r in runs for x in r["log"].replaced],
            "outlined_expressions_assumed": outlined,
            "verifier_only_attributes": attrs,
            "not_reached": cfg.get("not_reached", []),
            "failed_obligations": sorted(failed.keys()),
            "known_findings_hit": known_hit or [],
            "stored_inputs_replayed_on_real_crate": sweep if sweep is not None else "not run",
            "undecided": undecided or [],
            "vacuity_twins": twins,
            "extraction_drops": "attributes other than std derives/#[default]; visibility qualifiers; `crate::`/`super::` path prefixes; `use` lines; #[cfg(test)] modules (never extracted)",
            "repo_head": _git_head(),
            "explanation": cfg.get("explanation", ""),
        },
        "assumptions": assumptions + list(cfg.get("assumptions", [])),
        "wall_s": round(wall, 2),
        "violations": len(violations or []),
    }
    with open(os.path.join(evdir, pid + ".json"), "w") as f:
        json.dump(ev, f, indent=1)


def _git_head():
    try:
        h = subprocess.run(["git", "-C", REPO, "rev-parse", "HEAD"], capture_output=True, text=True).stdout.strip()
        dirty = subprocess.run(["git", "-C", REPO, "status", "--porcelain", "--untracked-files=no"], capture_output=True,
                               text=True).stdout.strip()
        return h + (" +uncommitted changes" if dirty else "")
    except Exception:
        return "?"


def gen(unit, seed, show=True, twin=False):
    r = run_unit("_gen", unit, seed, run_verus.RLIMIT_DEFAULT, twin=twin)
    res = r["res"]
    print(f"generated {r['gen']} ({len(r['lines'])} lines); verus {res['wall_s']:.1f}s; results={res['results']}")
    for d in res["diags"]:
        print(f"  [{d.kind}] {d.obligation}: {d.message}")
        if show and d.kind in ("unsupported", "aux", "safety", "label", "rlimit"):
            print("     " + "\n     ".join(d.rendered.split("\n")[:30]))
    for f in res["functions"]:
        if f["ms"] > 2000 or not f["success"]:
            print(f"   fn {f['function']}: {f['ms']:.0f} ms rlimit={f['rlimit']} success={f['success']}")
    if res["compile_error"] and not res["diags"]:
        print(res["raw_stderr"][-3000:])
    return 0


def main(argv):
    ap = argparse.ArgumentParser(prog="vx")
    sub = ap.add_subparsers(dest="cmd", required=True)
    c = sub.add_parser("check")
    c.add_argument("pid")
    c.add_argument("--tier", default=os.environ.get("VERIF_TIER", "quick"))
    g = sub.add_parser("gen")
    g.add_argument("unit")
    g.add_argument("--quiet", action="store_true")
    g.add_argument("--twin", action="store_true")
    rp = sub.add_parser("replay")
    rp.add_argument("file")
    a = ap.parse_args(argv)
    seed = int(os.environ.get("VERIF_SEED", "0") or 0)
    if a.cmd == "check":
        tier = a.tier if a.tier in ("quick", "thorough") else "quick"
        return check(a.pid, tier, seed)
    if a.cmd == "gen":
        try:
            return gen(a.unit, seed, show=not a.quiet, twin=a.twin)
        except ExtractError as e:
            print("EXTRACT ERROR:", e)
            return 2
    if a.cmd == "replay":
        import witness
        return witness.replay_file(a.file, REPO)
    return 2
