#!/usr/bin/env python3
"""Regenerates /verif/MANIFEST.json from props/*.toml and props/not_applicable.toml."""
import json, os, tomllib, glob
VERIF = os.path.dirname(os.path.dirname(os.path.abspath(__file__)))
checks = []
for p in sorted(glob.glob(os.path.join(VERIF, "props", "C*.toml"))):
    pid = os.path.basename(p)[:-5]
    with open(p, "rb") as f:
        c = tomllib.load(f)
    checks.append({
        "property_id": pid,
        "quick_cmd": f"./vx check {pid} --tier quick",
        "thorough_cmd": f"./vx check {pid} --tier thorough",
        "evidence_file": f"/verif/evidence/{pid}.json",
        "replay_cmd_template": "./vx replay {path}",
        "engine": "vx",
        "level_claimed": {
            "category": "proof",
            "text": c.get("level_text") or c.get("explanation", ""),
            "design_ref": "DESIGN.md §4 " + pid,
        },
        "level_note": c.get("level_note") or ("Trusted: " + "; ".join(c.get("trusted_base", [])) + ". Not reached (unverified): " + "; ".join(c.get("not_reached", []))),
        "technique": c.get("technique", "contract-based deductive verification: Verus (Z3) on functions extracted mechanically from /repo each run"),
    })
with open(os.path.join(VERIF, "props", "not_applicable.toml"), "rb") as f:
    na = tomllib.load(f)
claimed = {c["property_id"] for c in checks}
manifest = {
    "version": 1,
    "setup_cmd": "./setup.sh",
    "hooks": {
        "guard": "rigetti_quil_rs_verif",
        "enable": "not needed: checks read /repo's source text and the replay binary links the unmodified crate through its public API",
        "baseline_off_cmd": "cd /repo && cargo nextest run --workspace --no-fail-fast --offline --test-threads 8",
        "source_commits": [],
        "add_only": True,
    },
    "engines": [{
        "name": "vx", "path": "/verif/vx", "serves_properties": sorted(claimed),
        "kind_free_text": "mechanical extraction of real functions from /repo + woven contracts (units/*.vu) + Verus 0.2026.09.13/Z3; replay binary linking the real crate for witnesses",
    }],
    "checks": checks,
    "notes": "exit 0 = all obligations carrying the property discharged; exit 1 = VIOLATION (a carried obligation failed to verify, or a stored input — thorough tier: also one of the generated inputs of the bounded exploration — violates the property's statement when run against the real crate; the replay file says which); exit 2 = undecided (an obligation of the property lies in a function whose weaving lost its anchor or whose text Verus rejects, a resource limit, a failed proof step without a failing input, the vacuity guard), never an alarm. Genuine defects repaired in /repo are listed in known_findings.json under `fixed`.",
    "not_applicable": [{"property_id": k, "reason": v} for k, v in sorted(na.items()) if k not in claimed],
}
with open(os.path.join(VERIF, "MANIFEST.json"), "w") as f:
    json.dump(manifest, f, indent=1)
print("MANIFEST.json:", len(checks), "checks,", len(manifest["not_applicable"]), "not applicable")
