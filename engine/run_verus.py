"""Run Verus on a generated unit file and attribute every diagnostic to an
obligation id through the line → origin map."""

import json
import os
import re
import subprocess
import time

RLIMIT_DEFAULT = 40  # verus --rlimit units (≈ seconds-ish, deterministic resource count)


class Diag:
    def __init__(self, level, message, spans, rendered):
        self.level, self.message, self.spans, self.rendered = level, message, spans, rendered
        self.obligation = None   # label or safety id
        self.kind = None         # 'label' | 'safety' | 'aux' | 'unsupported' | 'rlimit'
        self.item = None


UNSUPPORTED_PAT = re.compile(
    r"not supported|unsupported|The verifier does not yet support|cannot find|mismatched types|expected .* found|"
    r"unresolved|no method named|the trait bound|is not satisfied for|not found in this scope|"
    r"cannot be used|Verus does not|does not yet support|not allowed|is private|borrow|moved value|E0\d\d\d", re.I)


def run(gen_path, lines, rlimit=RLIMIT_DEFAULT, seed=None, extra=None, timeout=900):
    cmd = ["verus", gen_path, "--error-format=json", "--output-json", "--time", "--multiple-errors", "8",
           "--rlimit", str(rlimit), "--num-threads", "16"]
    if seed is not None:
        cmd += ["--smt-option", f"smt.random_seed={int(seed) % 100000}"]
    if extra:
        cmd += extra
    t0 = time.time()
    try:
        p = subprocess.run(cmd, capture_output=True, text=True, timeout=timeout, cwd=os.path.dirname(gen_path))
    except subprocess.TimeoutExpired:
        return {"cmd": " ".join(cmd), "wall_s": time.time() - t0, "timeout": True, "diags": [], "results": None,
                "functions": [], "compile_error": True, "raw_stderr": "timeout"}
    wall = time.time() - t0
    results = None
    try:
        results = json.loads(p.stdout)
    except Exception:
        # stdout may hold extra text before the json
        k = p.stdout.find("{")
        try:
            results = json.loads(p.stdout[k:]) if k >= 0 else None
        except Exception:
            results = None
    diags = []
    for ln in p.stderr.split("\n"):
        ln = ln.strip()
        if not ln.startswith("{"):
            continue
        try:
            d = json.loads(ln)
        except Exception:
            continue
        if d.get("$message_type") != "diagnostic":
            continue
        if d["level"] not in ("error", "warning", "note"):
            continue
        spans = []
        for sp in d.get("spans", []):
            primary, label = sp["is_primary"], sp.get("label")
            # a span inside a macro expansion (panic!, todo!, unreachable!, ...): walk out to the call site
            hops = 0
            while sp.get("expansion") and os.path.basename(sp.get("file_name") or "") != os.path.basename(gen_path) and hops < 8:
                sp = sp["expansion"]["span"]
                hops += 1
            spans.append({"line_start": sp["line_start"], "line_end": sp["line_end"], "primary": primary,
                          "label": label, "file": sp.get("file_name")})
        for ch in d.get("children", []):
            for sp in ch.get("spans", []):
                spans.append({"line_start": sp["line_start"], "line_end": sp["line_end"], "primary": False,
                              "label": sp.get("label") or ch.get("message"), "file": sp.get("file_name")})
        dg = Diag(d["level"], d["message"], spans, d.get("rendered") or "")
        dg.code = (d.get("code") or {}).get("code") if d.get("code") else None
        diags.append(dg)
    functions = []
    vr = None
    if results:
        vr = results.get("verification-results")
        try:
            for mod in results["times-ms"]["smt"]["smt-run-module-times"]:
                for fb in mod.get("function-breakdown", []):
                    functions.append({"function": fb["function"], "mode": fb.get("mode:") or fb.get("mode"),
                                      "ms": fb.get("time-micros", 0) / 1000.0, "rlimit": fb.get("rlimit"),
                                      "success": fb.get("success")})
        except Exception:
            pass
    errors = [d for d in diags if d.level == "error" and not d.message.startswith("aborting due to")]
    compile_error = False
    gen_file = os.path.basename(gen_path)
    for d in errors:
        _attribute(d, lines, gen_file)
    if vr is None or vr.get("encountered-vir-error") or (vr and not vr.get("success") and not any(
            d.kind in ("label", "safety", "aux", "rlimit") for d in errors)):
        compile_error = True
    # a rustc / VIR-level rejection ("unsupported") makes the whole unit undecided
    if any(d.kind == "unsupported" for d in errors):
        compile_error = True
    return {"cmd": " ".join(cmd), "wall_s": wall, "diags": errors, "results": vr, "functions": functions,
            "compile_error": compile_error, "raw_stderr": p.stderr, "timeout": False,
            "total_ms": (results or {}).get("times-ms", {}).get("total"),
            "smt_ms": (results or {}).get("times-ms", {}).get("smt", {}).get("total"),
            "verus_version": (results or {}).get("verus", {}).get("version")}


VERIF_MSGS = (
    "postcondition not satisfied", "precondition not satisfied", "assertion failed", "invariant not satisfied",
    "possible arithmetic underflow/overflow", "possible division by zero", "decreases not satisfied",
    "could not prove termination", "recommendation not met", "possible bit shift", "index out of bounds",
    "failed this", "unreachable", "might not be allowed", "cannot show invariant", "loop invariant",
    "panic", "could not show", "not satisfied", "could not be proven", "possible")


# messages with which Verus reports a *failed proof obligation* (everything else is a rejection of the text)
VERIF_RE = re.compile(
    r"^(postcondition not satisfied|precondition not satisfied|assertion failed|assertion not satisfied|"
    r"invariant not satisfied (before loop|at end of loop body)|loop ensures not satisfied|"
    r"possible arithmetic underflow/overflow|possible division by zero|possible bit shift underflow/overflow|"
    r"decreases not satisfied|could not prove termination|"
    r"constructed value may fail to meet its declared type invariant|"
    r"(function body check|while loop|for loop|loop): Resource limit|"
    r"unable to prove assertion|cannot prove)", re.I)


def _attribute(d, lines, gen_file):
    msg = d.message
    if "Resource limit (rlimit) exceeded" in msg or "resource limit" in msg.lower():
        d.kind = "rlimit"
    is_verif = VERIF_RE.match(msg) is not None and not getattr(d, "code", None)
    # first: any span that lands on a labelled spec line
    def origin_of(sp):
        ln = sp["line_start"]
        if sp.get("file") and os.path.basename(sp["file"]) != gen_file:
            return None
        if 1 <= ln <= len(lines):
            return lines[ln - 1]
        return None
    ordered = sorted(d.spans, key=lambda s: (not s["primary"],))
    if d.kind == "rlimit":
        for sp in ordered:
            o = origin_of(sp)
            if o is not None:
                d.obligation = _describe(o)
                return
        d.obligation = "?"
        return
    if not is_verif:
        d.kind = "unsupported"
        for sp in ordered:
            o = origin_of(sp)
            if o is not None:
                d.obligation = _describe(o)
                d.item = getattr(o, "item", None)     # the extracted item the rejected text belongs to, if any
                return
        d.obligation = "?"
        return
    if msg.lower().startswith("precondition not satisfied"):
        # a failed precondition belongs to the CALLER: to the obligations of the function the call sits in (the
        # nearest labelled contract / hint line above the call), not to the label of the callee's `requires` clause
        for sp in ordered:
            if not sp["primary"]:
                continue
            ln = sp["line_start"]
            if sp.get("file") and os.path.basename(sp["file"]) != gen_file:
                continue
            site = lines[ln - 1] if 1 <= ln <= len(lines) else None
            suffix = "~hint"
            if site is not None and site.origin[0] == "repo":
                # the call is repository code.  A precondition of a std function (slice index, unwrap, ...) that may
                # fail is a possible panic: a safety obligation of that line.  A precondition of a unit function /
                # outlined callee is an obligation of the calling function in its own right (`~call`), not a proof step.
                req = [s2 for s2 in d.spans if not s2["primary"]]
                in_gen = [s2 for s2 in req if not s2.get("file") or os.path.basename(s2["file"]) == gen_file]
                if not in_gen:
                    d.kind, d.obligation = "safety", f"{site.origin[1]}:{site.origin[2]}"
                    return
                # a `requires` clause that carries a property label of its own states an obligation of the property
                # (e.g. "the nested records are only walked for an index inside the expansion"); an unlabelled one
                # (key-model facts, well-formedness plumbing) is proof bookkeeping of the caller: a proof step
                for s2 in in_gen:
                    l2 = s2["line_start"]
                    lab2 = lines[l2 - 1].label if 1 <= l2 <= len(lines) else None
                    if lab2 and not lab2.startswith("VAC.") and not all(x.endswith(".aux") for x in lab2.split(",")):
                        d.kind, d.obligation = "label", lab2
                        return
            k = ln - 1
            while k >= 1 and ln - k < 600:
                lab = lines[k - 1].label
                if lab and not lab.startswith("VAC."):
                    parts = [x.replace("~hint", "") + suffix for x in lab.split(",")]
                    d.kind, d.obligation = "label", ",".join(parts)
                    return
                k -= 1
    for sp in ordered:
        o = origin_of(sp)
        if o is not None and o.label:
            # the label may sit on a multi-line clause; span start is enough
            d.kind, d.obligation = "label", o.label
            return
        # span may start on an unlabelled line but cover labelled ones (multi-line clause)
    for sp in ordered:
        o = origin_of(sp)
        if o is None:
            continue
        if o.origin[0] == "repo":
            d.kind = "safety"
            d.obligation = f"{o.origin[1]}:{o.origin[2]}"
            return
    for sp in ordered:
        o = origin_of(sp)
        if o is not None:
            d.kind = "aux"
            d.obligation = _describe(o)
            return
    d.kind, d.obligation = "aux", "?"


def _describe(o):
    if o.origin[0] == "repo":
        return f"{o.origin[1]}:{o.origin[2]}"
    if o.origin[0] == "spec":
        return f"{o.origin[1]}:{o.origin[2]}"
    return f"generated:{o.origin[1]}"
