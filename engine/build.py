"""Unit builder: reads units/<unit>.vu, extracts the named items from /repo's
working tree, applies the logged normalisations, weaves the contracts in, and
returns the generated Verus file together with a line → origin map.

Unit file syntax (line oriented; every directive starts with `@` in column 0
or after blanks; everything else is literal Verus text):

  @unit NAME
  @safety Cxx            safety obligations of extracted exec fns count for Cxx
  @default Cxx.label     label for spec lines that carry no explicit label
  @include prelude/x.rs  literal include from /verif
  @opaque A B C          opaque stand-in structs (never destructured by the unit)
  @extract REL :: [impl `HEADER` /] KIND NAME [noattr] [keeppub]
     @fn NAME              scope following directives to this fn of the item
     @ret NAME             name the fn result:  -> T   becomes  -> (NAME: T)
     @contract ... @end    clauses inserted between signature and body
     @loop `ANCHOR` [#k] [it=NAME] ... @end   clauses inserted before the loop body
     @before `ANCHOR` [#k] ... @end   lines inserted before the anchor's line
     @after `ANCHOR` [#k] ... @end    lines inserted after the anchor's last line
     @bodyend `ANCHOR` [#k] ... @end  lines inserted before the `}` closing the first block opened after the anchor
     @bodystart ... @end              lines inserted right after the `{` opening the function body
     @replace `OLD` `NEW` [#k] class=N0|N2|...   logged normalisation
     @outline `EXPR` `CALL` [#k]      logged assumption (expression left unverified)
     @n1 `for (i, x) in E.enumerate()` [#k]   enumerate → counter
     @attr `#[verifier::...]`          verifier-only attribute put in front of the item
  @endextract

Labels: a line `//[Cxx.name]` makes Cxx.name the label of all following lines of
the same block (literal section or directive block) until the next `//[...]`
(`//[]` clears it).
"""

import os
import re

import normalize
from extract import extract, impl_header, ExtractError
from rustlex import mask, match_bracket, find_top_level, norm_ws

VERIF = os.path.dirname(os.path.dirname(os.path.abspath(__file__)))


class Log:
    def __init__(self):
        self.counts = {}
        self.outlined = []
        self.replaced = []
        self.extracted = []
        self.attrs = []
        self.degraded = []   # functions whose body could not be woven (anchor lost): contract assumed in this run

    def count(self, what):
        self.counts[what] = self.counts.get(what, 0) + 1


class Line:
    __slots__ = ("text", "origin", "label", "item")

    def __init__(self, text, origin, label=None, item=None):
        self.text, self.origin, self.label, self.item = text, origin, label, item


HINT = "@hint-unlabelled"
LABEL_RE = re.compile(r"^\s*//\[([\w.\-@:,]*)\]\s*$")
TICK_RE = re.compile(r"`((?:[^`])*)`")


def _split_directive(line):
    """-> (name, [tick args], rest words)"""
    s = line.strip()
    m = re.match(r"@(\w+)\s*(.*)$", s)
    name, rest = m.group(1), m.group(2)
    ticks = TICK_RE.findall(rest)
    rest_wo = TICK_RE.sub(" ", rest)
    return name, ticks, rest_wo.split()


class Item:
    """an extracted item as a list of Lines, with positional editing helpers"""

    def __init__(self, ex, text, unit):
        self.ex = ex
        self.unit = unit
        self.lines = []
        ln = ex.first_line
        for t in text.split("\n"):
            self.lines.append(Line(t, ("repo", ex.src.rel, ln)))
            ln += 1
        self.scope = None  # (fn name) restricts anchor search

    # ---- text views -------------------------------------------------
    def joined(self):
        return "\n".join(l.text for l in self.lines)

    def _line_index(self, pos):
        acc = 0
        for i, l in enumerate(self.lines):
            nxt = acc + len(l.text) + 1
            if pos < nxt:
                return i, pos - acc
            acc = nxt
        return len(self.lines) - 1, len(self.lines[-1].text)

    def _scope_span(self):
        text = self.joined()
        if self.scope is None:
            return 0, len(text)
        m = mask(text)
        hits = [h.start() for h in re.finditer(r"\bfn\s+%s\b" % re.escape(self.scope), m)]
        # ignore hits in woven spec lines
        hits = [h for h in hits if self.lines[self._line_index(h)[0]].origin[0] == "repo"]
        if len(hits) != 1:
            raise ExtractError(f"@fn {self.scope}: {len(hits)} candidates in {self.ex.describe()}")
        b = self.repo_top_level(m, "{;", hits[0])
        if b < 0:
            raise ExtractError(f"@fn {self.scope}: no body")
        if m[b] == ";":
            return hits[0], b + 1
        return hits[0], match_bracket(m, b) + 1

    def repo_top_level(self, m, chars, start):
        """like find_top_level, but ignores characters on woven (non-repo) lines, so that braces inside an
        already woven contract are never mistaken for the function body"""
        text = self.joined()
        # blank out non-repo lines
        out, acc = [], 0
        for l in self.lines:
            seg = m[acc:acc + len(l.text)]
            out.append(seg if l.origin[0] == "repo" else " " * len(seg))
            acc += len(l.text) + 1
        mm = "\n".join(out)
        return find_top_level(mm, chars, start)

    def find_anchor(self, anchor, k=1, repo_only=True):
        """position (start, end) of the k-th occurrence of anchor (whitespace-insensitive)"""
        text = self.joined()
        lo, hi = self._scope_span()
        parts = [re.escape(p) for p in anchor.split()]
        rx = re.compile(r"\s+".join(parts))
        hits = []
        for h in rx.finditer(text, lo, hi):
            li, _ = self._line_index(h.start())
            if repo_only and self.lines[li].origin[0] != "repo":
                continue
            hits.append((h.start(), h.end()))
        if len(hits) < k or (k == 1 and len(hits) > 1 and False):
            raise ExtractError(
                f"anchor lost in {self.ex.describe()}: `{anchor}` (occurrence {k}, found {len(hits)})")
        return hits[k - 1], len(hits)

    def set_text(self, text_lines_with_origin):
        self.lines = text_lines_with_origin

    # ---- edits ------------------------------------------------------
    def replace_span(self, a, b, new):
        """replace chars [a,b) (within the joined text) by `new` (no newlines)"""
        la, ca = self._line_index(a)
        lb, cb = self._line_index(b)
        if la == lb:
            l = self.lines[la]
            l.text = l.text[:ca] + new + l.text[cb:]
        else:
            first, last = self.lines[la], self.lines[lb]
            first.text = first.text[:ca] + new
            last.text = last.text[cb:]
            for i in range(la + 1, lb):
                self.lines[i].text = ""

    def insert_lines(self, idx, new_lines):
        self.lines[idx:idx] = new_lines

    def open_brace_after(self, pos):
        m = mask(self.joined())
        b = self.repo_top_level(m, "{", pos)
        if b < 0:
            raise ExtractError("no `{` after anchor")
        return b

    def insert_before_brace(self, brace_pos, new_lines):
        """move the `{` at brace_pos to its own line and put new_lines before it"""
        li, ci = self._line_index(brace_pos)
        l = self.lines[li]
        before, after = l.text[:ci], l.text[ci:]
        l.text = before
        tail = Line(after, l.origin)
        self.lines[li + 1:li + 1] = new_lines + [tail]


def parse_block(lines, start, unitfile, default_label, end_tag="@end"):
    """collect spec lines until @end; returns (Lines, next index)"""
    out, label = [], default_label
    i = start
    while i < len(lines):
        s = lines[i]
        if s.strip() == end_tag:
            return out, i + 1
        lm = LABEL_RE.match(s)
        if lm:
            label = lm.group(1) or default_label
        out.append(Line(s, ("spec", unitfile, i + 1), label))
        i += 1
    raise ExtractError(f"{unitfile}: unterminated block starting at line {start}")


def build_unit(unit_path, repo_root, twin=False, force_degrade=None):
    """-> (generated text, [Line], Log, meta)"""
    log = Log()
    with open(unit_path, encoding="utf-8") as f:
        raw = f.read().split("\n")
    unitfile = os.path.relpath(unit_path, VERIF)
    out = []
    meta = {"unit": os.path.basename(unit_path)[:-3], "safety": None, "default": None, "props": [],
            "force_degrade": dict(force_degrade or {})}
    header = ["#![allow(unused_imports, dead_code, unused_variables, unused_mut, unused_parens, unreachable_code, unreachable_patterns, non_snake_case, unused_assignments, private_interfaces, unused_braces)]",
              "use vstd::prelude::*;", "use std::collections::{HashMap, HashSet};", "use std::hash::Hash;", "use std::fmt::Debug;", "use std::borrow::Borrow;", "verus! {"]
    for h in header:
        out.append(Line(h, ("gen", "header")))
    if twin:
        out.append(Line("pub uninterp spec fn vac_target() -> int;", ("gen", "vacuity twin")))
    _process_lines(raw, unitfile, repo_root, out, log, meta, twin, set())
    # one Line object per physical line (multi-line impl headers etc.), so that line → origin stays exact
    flat = []
    for l in out:
        if "\n" in l.text:
            for t in l.text.split("\n"):
                flat.append(Line(t, l.origin, l.label, l.item))
        else:
            flat.append(l)
    out = flat
    out.append(Line("} // verus!", ("gen", "footer")))
    out.append(Line("fn main() {}", ("gen", "footer")))
    text = "\n".join(l.text for l in out) + "\n"
    return text, out, log, meta


def _process_lines(raw, unitfile, repo_root, out, log, meta, twin, seen):
    label = meta.get("default")
    i = 0
    while i < len(raw):
        s = raw[i]
        st = s.strip()
        if st.startswith("@"):
            name, ticks, words = _split_directive(s)
            if name == "unit":
                meta["unit"] = words[0]
            elif name == "props":
                meta["props"] = words
            elif name == "safety":
                meta["safety"] = words[0]
            elif name == "default":
                meta["default"] = words[0]
                label = words[0]
            elif name == "include":
                if words[0] in seen:
                    i += 1
                    continue
                seen.add(words[0])
                p = os.path.join(VERIF, words[0])
                with open(p, encoding="utf-8") as f:
                    inc = f.read().split("\n")
                _process_lines(inc, words[0], repo_root, out, log, meta, twin, seen)
            elif name == "opaque":
                derives = "Clone, Debug, PartialEq, Eq, Hash, PartialOrd, Ord"
                for w in words:
                    if w.startswith("derive="):
                        derives = w[7:].replace("+", ", ")
                for w in words:
                    if w.startswith("derive="):
                        continue
                    d = f"#[derive({derives})] " if derives else ""
                    out.append(Line(f"{d}pub struct {w} {{ pub _opaque: u8 }}", ("gen", "opaque stand-in " + w)))
                    log.count("opaque stand-in type")
            elif name == "extract":
                snap = (len(log.outlined), len(log.replaced), len(log.extracted), len(log.attrs), dict(log.counts), meta.get("twin_k", 0))
                try:
                    i = _do_extract(raw, i, unitfile, repo_root, out, log, meta, twin)
                except ExtractError as e:
                    # A single function whose body no longer carries the text a hint / outline / normalisation is
                    # anchored on: the function is left unverified for this run (signature + contract, body dropped),
                    # so that properties with no obligation in it can still be decided; every labelled obligation
                    # of the function is reported as undecided (driver).  Anything else stays an error.
                    if not str(e).startswith("anchor lost"):
                        raise
                    del log.outlined[snap[0]:], log.replaced[snap[1]:], log.extracted[snap[2]:], log.attrs[snap[3]:]
                    log.counts = snap[4]
                    meta["twin_k"] = snap[5]
                    i = _do_extract(raw, i, unitfile, repo_root, out, log, meta, twin, degrade=str(e))
                continue
            else:
                raise ExtractError(f"{unitfile}:{i+1}: unknown directive @{name}")
            i += 1
            continue
        lm = LABEL_RE.match(s)
        if lm:
            label = lm.group(1) or meta["default"]
        out.append(Line(s, ("spec", unitfile, i + 1), label))
        i += 1


def _occ(words):
    for w in words:
        if w.startswith("#") and w[1:].isdigit():
            return int(w[1:])
    return 1


def _kv(words, key, default=None):
    for w in words:
        if w.startswith(key + "="):
            return w[len(key) + 1:]
    return default


def _do_extract(raw, i, unitfile, repo_root, out, log, meta, twin=False, degrade=None):
    s = raw[i]
    m = re.match(r"\s*@extract\s+(\S+)\s*::\s*(.*)$", s)
    if not m:
        raise ExtractError(f"{unitfile}:{i+1}: bad @extract")
    rel, spec = m.group(1), m.group(2)
    container = []
    flags = set()
    # container segments:  impl `HEADER` /   or  mod NAME /  or trait NAME /
    while True:
        spec = spec.strip()
        mm = re.match(r"impl\s+`([^`]*)`\s*/\s*(.*)$", spec)
        if mm:
            container.append(("impl", mm.group(1)))
            spec = mm.group(2)
            continue
        mm = re.match(r"(mod|trait)\s+(\w+)\s*/\s*(.*)$", spec)
        if mm:
            container.append((mm.group(1), mm.group(2)))
            spec = mm.group(3)
            continue
        break
    mm = re.match(r"impl\s+`([^`]*)`\s*(.*)$", spec)
    if mm:
        kind, name, rest = "impl", mm.group(1), mm.group(2)
    else:
        mm = re.match(r"(\w+)\s+(\w+)\s*(.*)$", spec)
        if not mm:
            raise ExtractError(f"{unitfile}:{i+1}: bad @extract item spec {spec!r}")
        kind, name, rest = mm.group(1), mm.group(2), mm.group(3)
    flags = set(rest.split())
    ex = extract(repo_root, rel, kind, name, container or None)
    if not degrade and ex.describe() in meta.get("force_degrade", {}):
        degrade = meta["force_degrade"][ex.describe()]      # (Verus rejected the woven text of this item, see driver)
    container = list(ex.container or [])   # (an ambiguous `impl X` header is resolved to `impl X#k` by extract)
    text = ex.text
    if "noattr" not in flags:
        text = normalize.drop_attributes(text, log)
    if "keeppub" not in flags:
        text = normalize.strip_visibility(text, log)
        in_trait_impl = any(ck == "trait" or (ck == "impl" and normalize._is_trait_impl(cn)) for ck, cn in container) \
            or (kind == "impl" and normalize._is_trait_impl(name))
        text = normalize.publicize(text, kind, in_trait_impl, log)
    text = normalize.flatten_paths(text, log)
    inst = [f for f in flags if f.startswith("instantiate=")]
    if kind == "macro" and inst:
        # mechanical instantiation of a one-group macro_rules! (`=> { $( BODY )* }`) for one value of its variable:
        # BODY with `$var` replaced; everything else is blanked so that line numbers are kept.  Verus cannot see
        # inside macro-generated items (and cannot weave spec items into them), hence this normalisation.
        var, val = inst[0][len("instantiate="):].split(":", 1)
        mt = mask(text)
        arrow = mt.find("=>")
        g = mt.find("$(", arrow)
        if arrow < 0 or g < 0:
            raise ExtractError(f"instantiate: macro {name} has no `=> {{ $( .. )* }}` transcriber")
        gclose = match_bracket(mt, g + 1)
        inner = text[g + 2:gclose]
        blank = lambda s: "".join(c if c == "\n" else " " for c in s)
        text = blank(text[:g + 2]) + inner.replace("$" + var, val) + blank(text[gclose:])
        kind = "impl"   # (what such macros generate here; only used for the pub-normalisation, which trait impls skip)
        log.count("N7 macro instantiated mechanically")
        log.replaced.append({"item": ex.describe(), "class": "N7", "old": f"{name}! {{ .. {val} .. }}",
                             "new": f"transcriber body with ${var} := {val}", "count": 1})
    gen_impls = []
    if kind in ("struct", "enum") and "-derives" in flags:
        # mutually recursive types (Instruction ↔ definitions holding Vec<Instruction>): Verus treats the derived
        # Clone/PartialEq/Debug impls as a call cycle.  The derives are replaced by unspecified external impls
        # (equality / printing of these types is never relied upon), Clone additionally assumed to return an equal value.
        gm0 = re.search(r"\b(?:struct|enum)\s+\w+\s*(<[^>{(]*>)?", mask(text))
        gp0 = (gm0.group(1) or "") if gm0 else ""
        ga0 = "<" + ", ".join(p.strip().split(":")[0].strip() for p in gp0[1:-1].split(",")) + ">" if gp0 else ""
        text = re.sub(r"#\[derive\([^)]*\)\]", lambda m: " " * len(m.group(0)), text, count=1)
        gen_impls.append(f"impl{gp0} Clone for {name}{ga0} {{ #[verifier::external_body] fn clone(&self) -> (r: Self) ensures r == *self {{ unimplemented!() }} }}")
        gen_impls.append(f"impl{gp0} PartialEq for {name}{ga0} {{ #[verifier::external_body] fn eq(&self, other: &Self) -> bool {{ unimplemented!() }} }}")
        gen_impls.append(f"impl{gp0} Debug for {name}{ga0} {{ #[verifier::external_body] fn fmt(&self, f: &mut std::fmt::Formatter<'_>) -> std::fmt::Result {{ unimplemented!() }} }}")
        log.count("assumed: derives of a recursive type replaced by external impls")
    if kind in ("struct", "enum") and ("+clone" in flags or "+eq" in flags):
        # derived Clone / PartialEq of non-Copy types get no specification from Verus: replace the derive by an
        # assumed (external_body) impl stating what #[derive] is documented to produce
        gm = re.search(r"\b(?:struct|enum)\s+\w+\s*(<[^>{(]*>)?", mask(text))
        gparams = (gm.group(1) or "") if gm else ""
        gargs = "<" + ", ".join(p.strip().split(":")[0].strip() for p in gparams[1:-1].split(",")) + ">" if gparams else ""
        def undervive(t, what):
            return re.sub(r"(#\[derive\([^)]*?)\b%s\b\s*,?\s*" % what, r"\1", t, count=1)
        if "+clone" in flags:
            text = undervive(text, "Clone")
            gen_impls.append(f"impl{gparams} Clone for {name}{gargs} {{ #[verifier::external_body] fn clone(&self) -> (r: Self) ensures r == *self {{ unimplemented!() }} }}")
            log.count("assumed: #[derive(Clone)] returns an equal value")
        if "+eq" in flags:
            # the derived `eq` is kept and VERIFIED by Verus against "== is structural equality"
            gen_impls.append(f"impl{gparams} vstd::std_specs::cmp::PartialEqSpecImpl for {name}{gargs} {{ open spec fn obeys_eq_spec() -> bool {{ true }} open spec fn eq_spec(&self, other: &Self) -> bool {{ *self == *other }} }}")
            log.count("verified: #[derive(PartialEq)] is structural equality (PartialEqSpecImpl)")
        text = text.replace("#[derive()]", "           ")
    item = Item(ex, text, meta["unit"])
    if degrade:
        if kind not in ("fn", "impl") or "stub" in flags:
            raise ExtractError(degrade)      # only functions with a body (one, or all those of an impl) can be set aside
        flags = flags | {"stub"}
        if kind == "impl":
            _stub_all_fns(item, ex)
            log.count("degraded: function set aside for this run (anchor lost), contract assumed")
            log.outlined.append({"item": ex.describe(), "repo_line": ex.first_line, "expression": "<every function body of the impl>",
                                 "replaced_by": "unimplemented!() (NOT VERIFIED IN THIS RUN: " + degrade + ")"})
    if "stub" in flags and kind == "fn":
        # signature only: the body is dropped and the function becomes an assumed (external_body) callee.
        # Used for callees outside the verifier's reach (nom combinator parsers); listed in evidence.
        mt = mask(item.joined())
        f0 = re.search(r"\bfn\b", mt)
        b = find_top_level(mt, "{;", f0.start())
        if b < 0 or mt[b] != "{":
            raise ExtractError(f"stub: fn without body in {ex.describe()}")
        li, ci = item._line_index(b)
        item.lines[li].text = item.lines[li].text[:ci] + "{ unimplemented!() }"
        del item.lines[li + 1:]
        item.insert_lines(0, [Line("#[verifier::external_body]", ("gen", "stub: body dropped, assumed callee"))])
        if degrade:
            log.count("degraded: function set aside for this run (anchor lost), contract assumed")
        else:
            log.count("stub: callee signature only (assumed total, unverified)")
        log.outlined.append({"item": ex.describe(), "repo_line": ex.first_line,
                             "expression": "<whole function body>",
                             "replaced_by": "unimplemented!() (" + ("NOT VERIFIED IN THIS RUN: " + degrade if degrade else "assumed callee") + ")"})
    log.extracted.append({"item": ex.describe(), "sha256": ex.sha256,
                          "lines": ex.last_line - ex.first_line + 1})
    prefix_lines, suffix_lines = [], []
    # wrap fn extracted from inside an impl/trait in its header
    if container and kind != "impl":
        for ci, (ck, cn) in enumerate(container):
            if ck == "impl":
                hdr = impl_header(repo_root, rel, cn, container[:ci] or None)
                hdr = normalize.flatten_paths(hdr, log)
                if "as_inherent" in flags:
                    # `impl<..> Trait for Type` → `impl<..> Type`: the method is verified as an inherent method of the
                    # same type (the other trait items are outside the unit); logged as a normalisation
                    mh = re.match(r"(impl(?:\s*<[^>]*>)?)\s+.*?\bfor\b\s+(.*)$", norm_ws(hdr))
                    if not mh:
                        raise ExtractError(f"as_inherent: not a trait impl header: {hdr}")
                    hdr = mh.group(1) + " " + mh.group(2)
                    log.count("N5 trait-impl method verified as inherent method")
                prefix_lines.append(Line(hdr + " {", ("gen", "impl header of " + ex.describe())))
                suffix_lines.append(Line("}", ("gen", "impl close")))
            elif ck == "trait":
                raise ExtractError("extracting a single fn out of a trait is not supported; extract the trait")
            # mod containers are flattened
    default_label = meta["default"]
    # proof hints woven into a function without a label of their own belong to the obligations of that function's
    # contract (not to the unit's default label): a failing hint is then reported for the property the function serves
    contract_labels, hint_lines = {}, []
    split_req = None
    i += 1
    while i < len(raw):
        st = raw[i].strip()
        if not st or st.startswith("//"):
            i += 1
            continue
        if not st.startswith("@"):
            raise ExtractError(f"{unitfile}:{i+1}: literal text inside @extract (missing @endextract?)")
        dname, ticks, words = _split_directive(raw[i])
        if dname == "endextract":
            i += 1
            break
        if degrade and dname in ("loop", "before", "after", "bodystart", "bodyend", "arms", "bindtail"):
            _blk, i = parse_block(raw, i + 1, unitfile, HINT)      # body-level weaving: nothing to weave into
            continue
        if degrade and dname in ("outline_stmt", "nzip", "n1", "lift", "split"):
            i += 1
            continue
        if degrade and dname in ("replace", "outline"):
            try:
                item.find_anchor(ticks[0], _occ(words))            # (a rewrite of the signature still applies)
            except ExtractError:
                i += 1
                continue
        if dname == "fn":
            item.scope = words[0] if words and words[0] != "*" else None
            i += 1
        elif dname == "attr":
            # directly in front of the item itself (inside the impl wrapper, if there is one)
            item.insert_lines(0, [Line(ticks[0], ("gen", "verifier-only attribute"))])
            log.attrs.append({"item": ex.describe(), "attr": ticks[0]})
            i += 1
        elif dname == "ret":
            _name_result(item, words[0])
            i += 1
        elif dname == "contract":
            block, i = parse_block(raw, i + 1, unitfile, default_label)
            contract_labels.setdefault(item.scope, [])
            for bl in block:
                if bl.label and bl.label != default_label and bl.label not in contract_labels[item.scope]:
                    contract_labels[item.scope].append(bl.label)
            lo, hi = item._scope_span()
            mt = mask(item.joined())
            f = re.compile(r"\bfn\b").search(mt, lo, hi)
            if not f:
                raise ExtractError(f"@contract: no fn in {ex.describe()}")
            b = item.repo_top_level(mt, "{;", f.start())
            if b < 0:
                raise ExtractError(f"@contract: fn without end in {ex.describe()}")
            if twin and "stub" not in flags and mt[b] == "{":
                # (a stub's or a body-less trait method's contract is assumed, not proved: there is nothing whose
                #  vacuity could be tested)
                meta["twin_k"] = meta.get("twin_k", 0) + 1
                block = _twin_contract(block, f"VAC.{meta['unit']}.{item.scope or name}", meta["twin_k"])
            # a body-less trait method declaration: clauses go in front of the `;`
            item.insert_before_brace(b, block)
        elif dname == "loop":
            block, i = parse_block(raw, i + 1, unitfile, HINT)
            hint_lines.extend((bl, item.scope) for bl in block)
            (a, e), _n = item.find_anchor(ticks[0], _occ(words))
            itname = _kv(words, "it")
            if itname:
                # for PAT in EXPR  →  for PAT in it: EXPR
                txt = item.joined()
                mm2 = re.compile(r"\bin\s+").search(txt, a, e)
                if not mm2:
                    raise ExtractError(f"@loop it=: not a for loop: `{ticks[0]}`")
                item.replace_span(mm2.end(), mm2.end(), itname + ": ")
            b = item.open_brace_after(a)
            item.insert_before_brace(b, block)
        elif dname in ("before", "after"):
            block, i = parse_block(raw, i + 1, unitfile, HINT)
            hint_lines.extend((bl, item.scope) for bl in block)
            (a, e), _n = item.find_anchor(ticks[0], _occ(words))
            # `all`: at every occurrence (arms duplicated by @arms carry the same repo text), last first
            for k in (range(_n, 0, -1) if "all" in words else [_occ(words)]):
                (a, e), _ = item.find_anchor(ticks[0], k)
                copy = [Line(l.text, l.origin, l.label) for l in block]
                hint_lines.extend((c, item.scope) for c in copy)
                if dname == "before":
                    li, _ = item._line_index(a)
                    item.insert_lines(li, copy)
                else:
                    li, _ = item._line_index(e - 1)
                    item.insert_lines(li + 1, copy)
        elif dname == "bodystart":
            # @bodystart ... @end : lines inserted right after the `{` that opens the body of the (scoped) function --
            # an anchor that no edit of the body can move
            block, i = parse_block(raw, i + 1, unitfile, HINT)
            hint_lines.extend((bl, item.scope) for bl in block)
            lo, hi = item._scope_span()
            mt3 = mask(item.joined())
            f3 = re.compile(r"\bfn\b").search(mt3, lo, hi)
            b3 = item.repo_top_level(mt3, "{", f3.start())
            if b3 < 0:
                raise ExtractError(f"@bodystart: fn without body in {ex.describe()}")
            lb3, cb3 = item._line_index(b3)
            l3 = item.lines[lb3]
            rest = l3.text[cb3 + 1:]
            l3.text = l3.text[:cb3 + 1]
            item.lines[lb3 + 1:lb3 + 1] = block + ([Line(rest, l3.origin)] if rest.strip() else [])
        elif dname == "bodyend":
            block, i = parse_block(raw, i + 1, unitfile, HINT)
            hint_lines.extend((bl, item.scope) for bl in block)
            (a, e), _n = item.find_anchor(ticks[0], _occ(words))
            b = item.open_brace_after(a)
            close = match_bracket(mask(item.joined()), b)
            lc, cc = item._line_index(close)
            cl = item.lines[lc]
            before, after = cl.text[:cc], cl.text[cc:]
            if before.strip():
                cl.text = before
                item.lines[lc + 1:lc + 1] = block + [Line(after, cl.origin)]
            else:
                item.insert_lines(lc, block)
        elif dname == "replace":
            try:
                (a, e), n = item.find_anchor(ticks[0], _occ(words))
            except ExtractError:
                if "optional" in words:     # (a normalisation of text that need not be there)
                    i += 1
                    continue
                raise
            if "all" in words:
                # replace every occurrence, last first
                cnt = n
                for k in range(n, 0, -1):
                    (a, e), _ = item.find_anchor(ticks[0], k)
                    item.replace_span(a, e, ticks[1])
            else:
                cnt = 1
                item.replace_span(a, e, ticks[1])
            cls = _kv(words, "class", "N?")
            log.count(f"{cls} rewrite")
            log.replaced.append({"item": ex.describe(), "class": cls, "old": ticks[0], "new": ticks[1], "count": cnt})
            i += 1
        elif dname == "outline":
            (a, e), n = item.find_anchor(ticks[0], _occ(words))
            occurrences = list(range(n, 0, -1)) if "all" in words else [_occ(words)]
            for k in occurrences:
                (a, e), _ = item.find_anchor(ticks[0], k)
                li, _ = item._line_index(a)
                item.replace_span(a, e, ticks[1])
                log.outlined.append({"item": ex.describe(), "repo_line": item.lines[li].origin[2] if item.lines[li].origin[0] == "repo" else None,
                                     "expression": ticks[0], "replaced_by": ticks[1]})
                log.count("outlined expression (assumed contract)")
            i += 1
        elif dname == "outline_stmt":
            # @outline_stmt `let x = match y {` `let x = ol_call(..);` : the whole statement that starts at the anchor
            # (up to the brace matching the anchor's last `{`, plus the `;`) is replaced by an outlined, assumed call.
            (a, e), _n = item.find_anchor(ticks[0], _occ(words))
            mt2 = mask(item.joined())
            if mt2[e - 1] not in "{(":
                raise ExtractError("@outline_stmt: anchor must end with `{` or `(`")
            close = match_bracket(mt2, e - 1)
            k2 = close + 1
            while mt2[k2] in " \n\t":
                k2 += 1
            if mt2[k2] != ";":
                k2 = close          # (an item such as a nested `impl .. { .. }`: up to its closing brace)
            li, _ = item._line_index(a)
            lj, _ = item._line_index(k2)
            item.replace_span(a, k2 + 1, ticks[1] if len(ticks) > 1 else "")
            log.outlined.append({"item": ex.describe(), "repo_line": item.lines[li].origin[2] if item.lines[li].origin[0] == "repo" else None,
                                 "expression": ticks[0] + f" … }};  ({lj - li + 1} lines)", "replaced_by": ticks[1]})
            log.count("outlined statement (assumed contract)")
            i += 1
        elif dname == "nzip":
            _nzip(item, ticks[0], _occ(words), log)
            i += 1
        elif dname == "n1":
            _n1(item, ticks[0], _occ(words), log)
            i += 1
        elif dname == "lift":
            _lift(item, ticks, _occ(words), log, ex)
            i += 1
        elif dname == "arms":
            block, i = parse_block(raw, i + 1, unitfile, HINT)
            hint_lines.extend((bl, item.scope) for bl in block)
            (a, e), _n = item.find_anchor(ticks[0], _occ(words))
            _arms(item, a, e, block, _kv(words, "bind", "arm"), _kv(words, "prefix"), log, ex)
        elif dname == "split":
            split_req = (int(words[0]), _kv(words, "prefix"))
            i += 1
        elif dname == "bindtail":
            # @bindtail `EXPR` `name: Type` ... @end : a tail expression EXPR becomes
            #   { let name: Type = EXPR;  <ghost block>  name }
            # so that a proof block can talk about the value before it is returned (let-introduction, weaving only)
            block, i = parse_block(raw, i + 1, unitfile, HINT)
            hint_lines.extend((bl, item.scope) for bl in block)
            (a, e), _n = item.find_anchor(ticks[0], _occ(words))
            binder = ticks[1]
            ident = binder.split(":")[0].strip()
            la, _ = item._line_index(a)
            lb, _ = item._line_index(e - 1)
            item.replace_span(e, e, ";")
            item.replace_span(a, a, "{ let " + binder + " = ")
            item.insert_lines(lb + 1, block + [Line(ident + " }", ("gen", "bindtail"))])
            log.count("weave: tail expression bound to a name for a proof block")
        else:
            raise ExtractError(f"{unitfile}:{i+1}: unknown directive @{dname} inside @extract")
    for bl, scope in hint_lines:
        if bl.label == HINT:
            labs = contract_labels.get(scope) or (contract_labels.get(None) if len(contract_labels) == 1 else None) \
                or ([v for v in contract_labels.values()][0] if len(contract_labels) == 1 else None)
            # (`~hint`: reported for the same property, but never mistaken for the obligation itself, e.g. when
            #  matching known findings)
            bl.label = ",".join(l + "~hint" for l in labs) if labs else default_label
    for bl in item.lines:
        if bl.label == HINT:
            bl.label = default_label
    if degrade:
        labs = sorted({l2 for bl in item.lines if bl.label for l2 in bl.label.split(",") if l2 and l2 != HINT})
        log.degraded.append({"item": ex.describe(), "reason": degrade, "labels": labs})
    if split_req and not degrade:
        # (vacuity twin: only the function itself, with the per-arm assertions assumed, is asked to prove `false`)
        item.lines = _split(item, 0 if twin else split_req[0], split_req[1], name, log, ex)
    for bl in prefix_lines + item.lines + suffix_lines:
        bl.item = ex.describe()
    out.extend(prefix_lines)
    out.extend(item.lines)
    out.extend(suffix_lines)
    for g in gen_impls:
        out.append(Line(g, ("gen", "assumed derive impl for " + name)))
    return i


def _stub_all_fns(item, ex):
    """degrade mode for a whole impl: every method body becomes `{ unimplemented!() }` under external_body"""
    mt = mask(item.joined())
    o = find_top_level(mt, "{", 0)
    if o < 0:
        raise ExtractError(f"degrade: impl without body in {ex.describe()}")
    c = match_bracket(mt, o)
    spans, depth, k = [], 0, o + 1
    while k < c:
        ch = mt[k]
        if ch in "{([":
            depth += 1
        elif ch in "})]":
            depth -= 1
        elif depth == 0 and mt.startswith("fn", k) and (k == 0 or not (mt[k - 1].isalnum() or mt[k - 1] == "_")) \
                and not (mt[k + 2].isalnum() or mt[k + 2] == "_"):
            b = find_top_level(mt, "{;", k)
            if 0 <= b < c and mt[b] == "{":
                e = match_bracket(mt, b)
                spans.append((k, b, e))
                k = e + 1
                continue
        k += 1
    for (f0, b, e) in reversed(spans):
        item.replace_span(b, e + 1, "{ unimplemented!() }")
        li, _ = item._line_index(f0)
        item.insert_lines(li, [Line("#[verifier::external_body]", ("gen", "degraded: body dropped, contract assumed in this run"))])


def _name_result(item, rname):
    lo, hi = item._scope_span()
    txt = item.joined()
    mt = mask(txt)
    f = re.compile(r"\bfn\b").search(mt, lo, hi)
    b = item.repo_top_level(mt, "{;", f.start())
    arrow = None
    # the `->` of the signature: the last top-level `->` before the body (closure types live inside brackets)
    depth = 0
    k = f.start()
    # (a `where` clause may itself contain `->`, e.g. `F: Fn(&str) -> bool`: the signature's arrow comes before it)
    w0 = re.compile(r"\bwhere\b").search(mt, f.start(), b)
    stop = w0.start() if w0 else b
    while k < stop:
        ch = mt[k]
        if ch in "([":
            depth += 1
        elif ch in ")]":
            depth -= 1
        elif depth == 0 and mt.startswith("->", k):
            arrow = k
        k += 1
    if arrow is None:
        raise ExtractError(f"@ret: fn has no return type in {item.ex.describe()}")
    tstart = arrow + 2
    w = re.compile(r"\bwhere\b").search(mt, tstart, b)
    tend = w.start() if w else b
    ty = txt[tstart:tend].strip()
    # keep line structure: only single-line return types are supported
    if "\n" in txt[tstart:tend].strip():
        raise ExtractError("@ret: multi-line return type")
    item.replace_span(tstart, tend, f" ({rname}: {ty}) ")


def _n1(item, anchor, k, log):
    """for (I, X) in E.enumerate() { B }  →  let mut I: usize = 0; for X in E { B I += 1; }"""
    (a, e), _ = item.find_anchor(anchor, k)
    txt = item.joined()
    mt = mask(txt)
    b = item.repo_top_level(mt, "{", a)
    hdr = txt[a:b]
    mm = re.match(r"for\s*\(\s*(\w+)\s*,\s*(.+?)\)\s*in\s+(.*)\.enumerate\(\)\s*$", hdr.strip(), re.S)
    if not mm:
        raise ExtractError(f"@n1: header does not have the form `for (i, x) in E.enumerate()`: {hdr!r}")
    ivar, pat, expr = mm.group(1), mm.group(2).strip(), mm.group(3).strip()
    close = match_bracket(mt, b)
    body = mt[b:close]
    if re.search(r"\bcontinue\b", body):
        raise ExtractError("@n1: loop body contains `continue`; normalisation not applicable")
    # insert the increment before the closing brace (on its own generated line)
    lc, cc = item._line_index(close)
    cl = item.lines[lc]
    before, after = cl.text[:cc], cl.text[cc:]
    cl.text = before
    item.lines[lc + 1:lc + 1] = [Line(f"{ivar} += 1;", ("gen", "N1 counter increment")), Line(after, cl.origin)]
    # header
    if "\n" in hdr:
        raise ExtractError("@n1: multi-line loop header")
    item.replace_span(a, b, f"for {pat} in {expr} ")
    la, _ = item._line_index(a)
    item.insert_lines(la, [Line(f"let mut {ivar}: usize = 0;", ("gen", "N1 counter init"))])
    log.count("N1 enumerate → counter")


def _twin_contract(block, vlabel, k=0):
    """vacuity twin: add the postcondition `vac_target() == k ==> false`; Verus must fail to prove it.  vac_target() is
    an uninterpreted constant, so the clause says `false` for the function under test, while a caller, whose own
    clause speaks about a different k, learns nothing from it (with a plain `false`, every function that always
    calls another contracted function would trivially `prove` its twin)."""
    FALSE = f"(vac_target() == {k}int ==> false),"
    texts = [l.text.strip() for l in block]
    has_ens = any(t.startswith("ensures") for t in texts)
    # position: before a trailing `decreases` section if there is one after ensures
    dec = None
    for k, t in enumerate(texts):
        if t.startswith("decreases") or t.startswith("no_unwind") or t.startswith("opens_invariants"):
            dec = k
    ens = max([k for k, t in enumerate(texts) if t.startswith("ensures")], default=None)
    new = list(block)
    if has_ens and (dec is None or dec < ens):
        # make sure the last clause ends with a comma
        k = len(new) - 1
        while k >= 0 and (not new[k].text.strip() or new[k].text.strip().startswith("//")):
            k -= 1
        if not new[k].text.rstrip().endswith(","):
            new[k] = Line(new[k].text.rstrip() + ",", new[k].origin, new[k].label)
        new.append(Line(FALSE, ("gen", "vacuity twin"), vlabel))
    elif has_ens:
        k = dec - 1
        while k >= 0 and (not new[k].text.strip() or new[k].text.strip().startswith("//")):
            k -= 1
        if not new[k].text.rstrip().endswith(","):
            new[k] = Line(new[k].text.rstrip() + ",", new[k].origin, new[k].label)
        new.insert(dec, Line(FALSE, ("gen", "vacuity twin"), vlabel))
    else:
        pos = dec if dec is not None else len(new)
        k = pos - 1
        while k >= 0 and (not new[k].text.strip() or new[k].text.strip().startswith("//")):
            k -= 1
        if k >= 0 and not new[k].text.rstrip().endswith(","):
            new[k] = Line(new[k].text.rstrip() + ",", new[k].origin, new[k].label)
        new.insert(pos, Line("ensures " + FALSE, ("gen", "vacuity twin"), vlabel))
    return new


def _lift(item, ticks, k, log, ex):
    """N2 closure lifting.
       @lift `EXPR_ANCHOR` `CLOSURE_PARAMS` `REPLACEMENT` `FN_HEADER`
    EXPR_ANCHOR ends with the `(` of the call that takes the closure (e.g. `self .qubits .iter() .enumerate() .all(`);
    the closure `CLOSURE_PARAMS BODY` follows.  BODY (a brace block) is moved verbatim into a new function with
    header FN_HEADER placed right after the enclosing function, and the whole expression from the start of the
    anchor to the `)` closing the call is replaced by REPLACEMENT (an outlined, assumed combinator call).  So the
    closure's code is verified as a function of its own; only the iterator combinator around it is assumed."""
    anchor, params, replacement, header = ticks[0], ticks[1], ticks[2], ticks[3]
    (a, e), _ = item.find_anchor(anchor, k)
    txt = item.joined()
    mt = mask(txt)
    open_paren = e - 1
    if mt[open_paren] != "(":
        raise ExtractError(f"@lift: anchor must end with `(`: `{anchor}`")
    close_paren = match_bracket(mt, open_paren)
    # closure parameter list right after the paren
    prx = re.compile(r"\s*" + r"\s*".join(re.escape(p) for p in params.split()))
    pm = prx.match(txt, open_paren + 1)
    if not pm:
        raise ExtractError(f"@lift: closure parameters `{params}` not found after `{anchor}`")
    b = pm.end()
    while txt[b].isspace():
        b += 1
    wrap = False
    if mt[b] != "{":
        # an expression body (`|q| match q { .. }`): everything up to the call's closing parenthesis, wrapped in braces
        body_close = close_paren - 1
        while mt[body_close] in " \n\t,":
            body_close -= 1
        wrap = True
    else:
        body_close = match_bracket(mt, b)
        if mt[body_close + 1:close_paren].strip(" \n\t,") != "":
            raise ExtractError("@lift: unexpected text between the closure body and the closing parenthesis")
    la, _ = item._line_index(b)
    lb, cb = item._line_index(body_close)
    # copy the body lines (verbatim, keeping their repo origins)
    first_li, first_ci = item._line_index(b)
    body_lines = []
    for li in range(first_li, lb + 1):
        l = item.lines[li]
        t = l.text
        if li == lb:
            t = t[:cb + 1]
        if li == first_li:
            t = " " * first_ci + t[first_ci:]
        body_lines.append(Line(t, l.origin, l.label))
    if wrap:
        o0 = item.lines[first_li].origin
        body_lines = [Line("    {", o0)] + body_lines + [Line("    }", item.lines[lb].origin)]
    # the enclosing function ends at the brace matching the first `{` after the nearest preceding `fn`
    fpos = max(h.start() for h in re.finditer(r"\bfn\b", mt[:a]))
    fb = item.repo_top_level(mt, "{", fpos)
    fend = match_bracket(mt, fb)
    lend, _ = item._line_index(fend)
    origin = item.lines[first_li].origin
    lifted = [Line("    // lifted closure body (normalisation N2): " + norm_ws(params), ("gen", "N2 lifted closure")),
              Line("    " + header, origin)] + body_lines
    # replace the expression, last position first so that indices stay valid
    item.insert_lines(lend + 1, lifted)
    item.replace_span(a, close_paren + 1, replacement)
    log.count("N2 closure lifted to a named function")
    log.outlined.append({"item": ex.describe(), "repo_line": origin[2] if origin[0] == "repo" else None,
                         "expression": norm_ws(anchor) + " <closure> )", "replaced_by": replacement})
    log.replaced.append({"item": ex.describe(), "class": "N2", "old": norm_ws(anchor) + norm_ws(params) + " {..})",
                         "new": replacement + "  +  " + header, "count": 1})


def _expand_or(p):
    """all alternatives of a (comment-free) pattern, `|` distributed to the top, in Rust's left-to-right order"""
    stack = []
    for idx, ch in enumerate(p):
        if ch in "([{":
            stack.append(idx)
        elif ch in ")]}":
            stack.pop()
        elif ch == "|":
            lo = stack[-1] + 1 if stack else 0
            # left end of the alternation: after a `,` or a field `:` at the same depth
            d, k, start = 0, idx - 1, lo
            while k >= lo:
                c = p[k]
                if c in ")]}":
                    d += 1
                elif c in "([{":
                    d -= 1
                elif d == 0 and c == ",":
                    start = k + 1
                    break
                elif d == 0 and c == ":" and p[k - 1] != ":" and (k + 1 >= len(p) or p[k + 1] != ":"):
                    start = k + 1
                    break
                k -= 1
            d, k, end = 0, idx + 1, None
            while k < len(p):
                c = p[k]
                if c in "([{":
                    d += 1
                elif c in ")]}":
                    if d == 0:
                        end = k
                        break
                    d -= 1
                elif d == 0 and c == ",":
                    end = k
                    break
                k += 1
            if end is None:
                end = len(p)
            seg = p[start:end]
            alts, d, cur = [], 0, ""
            for c in seg:
                if c in "([{":
                    d += 1
                elif c in ")]}":
                    d -= 1
                if c == "|" and d == 0:
                    alts.append(cur)
                    cur = ""
                else:
                    cur += c
            alts.append(cur)
            alts = [x.strip() for x in alts if x.strip()]
            res = []
            for alt in alts:
                res.extend(_expand_or(p[:start] + " " + alt + " " + p[end:]))
            return res
    return [norm_ws(p)]


def _arms(item, a, e, block, bind, prefix, log, ex):
    """@arms `match SCRUTINEE {` bind=NAME prefix=LABELPREFIX
         @name `TEXT` NAME     names the arm whose pattern/guard contains TEXT (exactly one arm must)
         @hint NAME            following lines go only into that arm (before the common lines)
         @only NAME            following lines go into that arm instead of the common lines
         @common               following lines go into every arm
       @end
    Every arm `PAT [if G] => BODY` of the match becomes `PAT [if G] => { let NAME = BODY; <lines> NAME }` (a
    let-introduction: weaving only), the woven lines carrying the label PREFIX.<arm name | armNN>, so that each arm
    is an obligation of its own.  An arm that has both an or-pattern and a guard (unsupported by Verus) is first
    split into one arm per alternative, in order, each with the same guard and body (normalisation N0)."""
    txt = item.joined()
    mt = mask(txt)
    if mt[e - 1] != "{":
        raise ExtractError("@arms: anchor must end with the `{` of the match")
    close = match_bracket(mt, e - 1)
    # ---- parse the directive block
    names, hints, onlys, common, cur = [], {}, {}, [], None
    for l in block:
        st = l.text.strip()
        if st.startswith("@name"):
            _d, t, w = _split_directive(l.text)
            names.append((norm_ws(t[0]), w[0]))
            cur = None
        elif st.startswith("@hint"):
            cur = hints.setdefault(st.split()[1], [])
        elif st.startswith("@only"):
            # the arm gets these lines INSTEAD of the common ones
            cur = onlys.setdefault(st.split()[1], [])
        elif st.startswith("@common"):
            cur = common
        elif cur is not None:
            cur.append(l)
        elif st and not st.startswith("//"):
            raise ExtractError("@arms: text before @hint/@common")
    # ---- locate the arms
    arms = []
    pos = e
    while True:
        while pos < close and mt[pos] in " \n\t":
            pos += 1
        if pos >= close:
            break
        arrow = find_top_level(mt, "=", pos)
        while arrow >= 0 and not mt.startswith("=>", arrow):
            arrow = find_top_level(mt, "=", arrow + 1)
        if arrow < 0 or arrow > close:
            raise ExtractError("@arms: arm without `=>`")
        b = arrow + 2
        while mt[b] in " \n\t":
            b += 1
        if mt[b] == "{":
            bend = match_bracket(mt, b) + 1
        else:
            bend = find_top_level(mt, ",", b)
            if bend < 0 or bend > close:
                bend = close
                while mt[bend - 1] in " \n\t":
                    bend -= 1
        nxt = bend
        while nxt < close and mt[nxt] in " \n\t":
            nxt += 1
        if nxt < close and mt[nxt] == ",":
            nxt += 1           # (the arm's own trailing comma)
        else:
            nxt = bend         # (a block-bodied arm without a comma)
        arms.append((pos, arrow, b, bend, nxt))
        pos = nxt
    # ---- rewrite, last arm first
    used = set()
    for k in range(len(arms), 0, -1):
        pos, arrow, b, bend, nxt = arms[k - 1]
        head = mt[pos:arrow]
        g = re.search(r"\bif\b", head)
        # (a guard's `if` is at bracket depth 0 of the arm head)
        gpos = None
        d = 0
        for j, c in enumerate(head):
            if c in "([{":
                d += 1
            elif c in ")]}":
                d -= 1
            elif d == 0 and head.startswith("if", j) and (j == 0 or not (head[j - 1].isalnum() or head[j - 1] == "_")) \
                    and not (head[j + 2].isalnum() or head[j + 2] == "_"):
                gpos = j
                break
        pat = head[:gpos] if gpos is not None else head
        guard = txt[pos + gpos:arrow] if gpos is not None else ""
        whole = norm_ws(txt[pos:arrow])
        aname = None
        for snippet, nm in names:
            hd = norm_ws(mt[pos:arrow])
            if (snippet == hd or snippet == whole) if len(snippet) <= 3 else (snippet in hd or snippet in whole):
                if aname is not None:
                    raise ExtractError(f"@arms: two @name snippets match arm {k}")
                aname = nm
                if nm in used:
                    raise ExtractError(f"anchor lost in {ex.describe()}: @name `{snippet}` matches more than one arm")
                used.add(nm)
        label = f"{prefix}.{aname or 'arm%02d' % k}"
        la, ca = item._line_index(pos)
        lb, cb = item._line_index(bend - 1)
        if item.lines[la].text[:ca].strip() or item.lines[lb].text[cb + 1:].strip(" ,"):
            raise ExtractError(f"@arms: arm {k} does not occupy whole lines (unsupported layout)")
        o_first = item.lines[la].origin
        larrow, carrow = item._line_index(arrow)
        body_lines = []
        for li in range(larrow, lb + 1):
            l = item.lines[li]
            t = l.text
            if li == lb:
                t = t[:cb + 1]
            if li == larrow:
                t = " " * (carrow + 2) + t[carrow + 2:]
            body_lines.append((t, l.origin, l.label))
        # (a `//[label]` line inside a @hint block gives the following lines an obligation name of their own)
        own = lambda l: l.label if l.label not in (None, HINT) else label
        woven = [Line(l.text, l.origin, own(l)) for l in hints.get(aname, [])] \
            + [Line(l.text, l.origin, own(l) if aname in onlys else label) for l in (onlys[aname] if aname in onlys else common)]
        def one_arm(head_lines):
            out_l = list(head_lines)
            out_l.append(Line(f"=> {{ let {bind} =", ("gen", "arm result bound to a name (weaving)")))
            out_l.extend(Line(t, o, lb_) for (t, o, lb_) in body_lines)
            out_l.append(Line(";", ("gen", "arm result bound to a name (weaving)")))
            out_l.extend(Line(l.text, l.origin, l.label) for l in woven)
            out_l.append(Line(f"{bind} }},", ("gen", "arm result bound to a name (weaving)")))
            return out_l
        has_or = "|" in pat.replace("||", "  ")
        new_lines = []
        if has_or and gpos is not None:
            alts = _expand_or(pat)
            for alt in alts:
                new_lines.extend(one_arm([Line(alt + " " + norm_ws(guard), o_first)]))
            log.count("N0 or-pattern arm with a guard split into one arm per alternative")
            log.replaced.append({"item": ex.describe(), "class": "N0", "old": whole,
                                 "new": " ;; ".join(alts) + "  (each with the same guard and body)", "count": len(alts)})
        else:
            head_lines = []
            for li in range(la, larrow + 1):
                l = item.lines[li]
                t = l.text[:carrow] if li == larrow else l.text
                head_lines.append(Line(t, l.origin, l.label))
            new_lines = one_arm(head_lines)
        # the trailing comma (if any) lives between bend and nxt: drop it with the old lines
        lend, _ = item._line_index(max(nxt - 1, bend - 1))
        item.lines[la:lend + 1] = new_lines
    for snippet, nm in names:
        if nm not in used:
            raise ExtractError(f"anchor lost in {ex.describe()}: @name `{snippet}` matches no arm")
    log.count("weave: match arm results bound to a name, one labelled obligation per arm")


def _split(item, K, prefix, fname, log, ex):
    """@split K prefix=P : the function is checked as K+1 solver queries instead of one.  The woven per-arm assertions
    (lines labelled P.<arm>) are distributed over K copies of the function, `<fn>__part<j>`: copy j proves the
    assertions of its share of the arms and assumes the others; the function itself assumes all of them (each one is
    proved, in the same context, in exactly one copy) and proves its contract.  Nothing else differs between the
    copies.  The generated `assume`s are marked `// split:`."""
    labels = []
    for l in item.lines:
        if l.label and l.label.startswith(prefix + ".") and l.text.strip().startswith("assert(") and l.label not in labels:
            labels.append(l.label)
    if not labels:
        raise ExtractError(f"@split: no labelled assertions with prefix {prefix} in {ex.describe()}")
    part_of = {lab: (k % K if K else 0) for k, lab in enumerate(labels)}

    def assumed(l, j):
        t = l.text
        note = f" // split: proved in {fname}__part{j}"
        if re.search(r"\)\s*by\s*\{\s*$", t):
            t = re.sub(r"^(\s*)assert\(", r"\1assume(", t, count=1)
            t = re.sub(r"\)\s*by\s*\{\s*$", "); assert(true) by {" + note, t)
        elif t.rstrip().endswith(");"):
            t = re.sub(r"^(\s*)assert\(", r"\1assume(", t, count=1) + note
        else:
            raise ExtractError("@split: a labelled assertion spans several lines (unsupported)")
        return Line(t, ("gen", "split: assertion proved in a sibling copy"), None)

    def version(j):
        res = []
        renamed = False
        for l in item.lines:
            t = l.text
            if j is not None and not renamed and l.origin[0] == "repo" and re.search(r"\bfn\s+%s\b" % re.escape(fname), t):
                t = re.sub(r"\bfn\s+%s\b" % re.escape(fname), f"fn {fname}__part{j}", t, count=1)
                renamed = True
                res.append(Line(t, l.origin, l.label))
                continue
            if l.label in part_of and l.text.strip().startswith("assert(") and part_of[l.label] != j:
                res.append(assumed(l, part_of[l.label]))
            else:
                res.append(Line(t, l.origin, l.label))
        if j is not None and not renamed:
            raise ExtractError("@split: function header not found")
        return res

    # (`spinoff_prover`: each copy gets a solver process of its own, so the copies are checked in parallel)
    spin = Line("#[verifier::spinoff_prover]", ("gen", "split"))
    out_lines = [spin] + version(None)
    for j in range(K):
        out_lines.append(Line(f"// ---- copy {j} of {fname} (proof split)", ("gen", "split")))
        out_lines.append(spin)
        out_lines.extend(version(j))
    log.count(f"split: {fname} checked as {K}+1 queries (each per-arm assertion proved in exactly one copy)")
    return out_lines


def _nzip(item, anchor, k, log):
    """N12:  for (A, B) in std::iter::zip(X, Y) { BODY }   (X, Y slice iterators)  becomes
         let zip_left = X.as_slice(); let zip_right = Y.as_slice(); let mut zip_index: usize = 0;
         while zip_index < zip_left.len() && zip_index < zip_right.len() {
             let A = &zip_left[zip_index]; let B = &zip_right[zip_index]; zip_index += 1; BODY }
    i.e. std's definition of Zip over two slice iterators: pairs up to the shorter one, in order."""
    (a, e), _ = item.find_anchor(anchor, k)
    txt = item.joined()
    mt = mask(txt)
    b = item.repo_top_level(mt, "{", a)
    hdr = txt[a:b]
    mm = re.match(r"for\s*\(\s*(\w+)\s*,\s*(\w+)\s*\)\s*in\s+std::iter::zip\((.*)\)\s*$", hdr.strip(), re.S)
    if not mm:
        raise ExtractError(f"@nzip: header does not have the form `for (a, b) in std::iter::zip(X, Y)`: {hdr!r}")
    va, vb, args = mm.group(1), mm.group(2), mm.group(3)
    cut = find_top_level(mask(args), ",", 0)
    if cut < 0:
        raise ExtractError("@nzip: zip needs two arguments")
    x, y = args[:cut].strip(), args[cut + 1:].strip()
    if "\n" in hdr:
        raise ExtractError("@nzip: multi-line loop header")
    if re.search(r"\bcontinue\b|\bbreak\b", mt[b:match_bracket(mt, b)]):
        pass  # (the increment is placed before BODY, so `continue` is fine)
    item.replace_span(a, b + 1, "while zip_index < zip_left.len() && zip_index < zip_right.len() {")
    la, _ = item._line_index(a)
    item.insert_lines(la + 1, [Line(f"let {va} = &zip_left[zip_index]; let {vb} = &zip_right[zip_index]; zip_index += 1;", ("gen", "N12 zip bindings"))])
    item.insert_lines(la, [Line(f"let zip_left = {x}.as_slice(); let zip_right = {y}.as_slice(); let mut zip_index: usize = 0;", ("gen", "N12 zip operands"))])
    log.count("N12 zip of two slice iterators → indexed loop")
    log.replaced.append({"item": item.ex.describe(), "class": "N12", "old": norm_ws(hdr), "new": "indexed while loop over the two slices (std's Zip: pairs up to the shorter one)", "count": 1})
