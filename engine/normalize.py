"""The closed list of normalisations applied to extracted text (DESIGN §2.2).

All of them preserve the number of lines (except N1, which adds two counter
lines that are tagged as generated), so generated line → repo line stays exact.
Every application is counted and reported in evidence.
"""

import re

from rustlex import mask, match_bracket, find_top_level

STD_DERIVES = {"Clone", "Copy", "Debug", "PartialEq", "Eq", "Hash", "Default", "PartialOrd", "Ord"}


def _blank(text, a, b):
    return text[:a] + "".join(c if c == "\n" else " " for c in text[a:b]) + text[b:]


def _attributes(m):
    """spans (start, open_bracket, end_inclusive) of every attribute in masked text m"""
    res, pos = [], 0
    while True:
        k = m.find("#", pos)
        if k < 0:
            return res
        j = k + 1
        if j < len(m) and m[j] == "!":
            j += 1
        while j < len(m) and m[j] in " \t":
            j += 1
        if j >= len(m) or m[j] != "[":
            pos = k + 1
            continue
        e = match_bracket(m, j)
        res.append((k, j, e))
        pos = e + 1


def drop_attributes(text, log, keep_derives=None):
    """N3a: remove every attribute except #[derive(<std derives>)] and #[default].
    Line count is preserved (a multi-line attribute becomes blank lines)."""
    keep = STD_DERIVES if keep_derives is None else keep_derives
    m = mask(text)
    out = text
    for k, j, e in reversed(_attributes(m)):
        body = text[j + 1:e].strip()
        nm = re.match(r"[\w:]+", body)
        name = nm.group(0) if nm else "?"
        nl = text[k:e + 1].count("\n")
        if name == "derive":
            inner = body[body.index("(") + 1:body.rindex(")")]
            items = [x.strip() for x in inner.split(",") if x.strip()]
            kept = []
            for x in items:
                base = x.split("::")[-1]
                if base in keep and (x == base or x.startswith("std::") or x.startswith("core::")):
                    kept.append(base)
                else:
                    log.count("N3a drop derive " + x)
            new = ("#[derive(" + ", ".join(kept) + ")]") if kept else ""
            out = out[:k] + new + "\n" * nl + out[e + 1:]
        elif name == "default":
            continue
        else:
            log.count("N3a drop attribute #[" + name + "]")
            out = out[:k] + "\n" * nl + out[e + 1:]
    return out


def strip_visibility(text, log):
    """N3b: `pub`, `pub(crate)`, `pub(super)`, `pub(in ..)` → nothing (single flat module)."""
    m = mask(text)
    out = text
    for mt in reversed(list(re.finditer(r"\bpub\b(\s*\((?:crate|super|self|in [^)]*)\))?[ \t]?", m))):
        log.count("N3b strip visibility")
        out = out[:mt.start()] + out[mt.end():]
    return out


def flatten_paths(text, log):
    """N3c: `crate::a::b::Name` / `super::a::Name` → `Name` (everything lives in one module)."""
    m = mask(text)
    out = text
    # (`$crate::…` inside macro_rules bodies is left alone: the unit provides stand-in modules for those paths)
    for mt in reversed(list(re.finditer(r"(?<!\$)\b(?:crate|super)::(?:[a-z_][a-z0-9_]*::)*", m))):
        log.count("N3c flatten path")
        out = out[:mt.start()] + out[mt.end():]
    return out


def split_or_guard_arms(text, log):
    """N0 is applied through explicit @replace directives with class N0 (rare)."""
    return text


def _is_trait_impl(header):
    """`impl<..> Trait for Type` vs inherent `impl<..> Type`"""
    m = mask(header)
    return re.search(r"\bfor\b", m) is not None


def publicize(text, kind, in_trait_impl, log):
    """N3b: after stripping visibility, make the item, its direct fns and its fields `pub`
    (one flat crate; Verus requires everything mentioned in a contract of a public function to be public)."""
    m = mask(text)
    ins = []  # positions where "pub " is inserted
    depth = []
    d = 0
    for ch in m:
        if ch in "}":
            d -= 1
        depth.append(d)
        if ch in "{":
            d += 1
    def kw(rx, at_depth):
        for mt in re.finditer(rx, m):
            if depth[mt.start()] == at_depth:
                # paren depth must be 0 too (fn pointers in types etc.)
                yield mt.start()
    def qual_start(p):
        """step back over `const`, `async`, `unsafe`, `extern "C"` qualifiers in front of `fn`"""
        while True:
            mm = re.search(r"(\b(?:const|async|unsafe|default)\s+)$", m[:p])
            if not mm:
                return p
            p = mm.start()
    if kind in ("struct", "enum", "union", "trait", "type", "const", "static", "mod"):
        first = re.search(r"\b%s\b" % kind, m)
        if first and not in_trait_impl:
            ins.append(qual_start(first.start()))
    if kind == "fn" and not in_trait_impl:
        first = re.search(r"\bfn\b", m)
        ins.append(qual_start(first.start()))
    if kind == "impl" and not in_trait_impl:
        for p in kw(r"\bfn\b", 1):
            ins.append(qual_start(p))
        for p in kw(r"\bconst\s+[A-Z_]", 1):
            ins.append(p)
    if kind == "struct":
        first = re.search(r"\bstruct\b", m).start()
        b = find_top_level(m, "{(;", first)
        if b >= 0 and m[b] == "{":
            e = match_bracket(m, b)
            # named fields: `ident :` at brace depth 1, paren depth 0, angle depth 0
            pd = ad = 0
            k = b + 1
            expect_field = True
            while k < e:
                ch = m[k]
                if ch in "([{":
                    pd += 1
                elif ch in ")]}":
                    pd -= 1
                elif ch == "<":
                    ad += 1
                elif ch == ">" and m[k - 1] != "-":
                    ad -= 1
                elif ch == "," and pd == 0 and ad == 0:
                    expect_field = True
                elif expect_field and pd == 0 and ad == 0 and (ch.isalpha() or ch == "_"):
                    mm = re.match(r"(r#)?\w+\s*:(?!:)", m[k:])
                    if mm:
                        ins.append(k)
                        expect_field = False
                        k += mm.end() - 1
                k += 1
        elif b >= 0 and m[b] == "(":
            e = match_bracket(m, b)
            pd = ad = 0
            k = b + 1
            expect_field = True
            while k < e:
                ch = m[k]
                if ch in "([{":
                    pd += 1
                elif ch in ")]}":
                    pd -= 1
                elif ch == "<":
                    ad += 1
                elif ch == ">" and m[k - 1] != "-":
                    ad -= 1
                elif ch == "," and pd == 0 and ad == 0:
                    expect_field = True
                    k += 1
                    continue
                if expect_field and not ch.isspace() and ch != ",":
                    ins.append(k)
                    expect_field = False
                k += 1
    out = text
    for p in sorted(set(ins), reverse=True):
        out = out[:p] + "pub " + out[p:]
        log.count("N3b make public")
    return out
