#!/bin/sh
# runs every registered quick check on the current tree (use before committing evidence)
cd /verif
rc=0
for f in props/C*.toml; do p=$(basename "$f" .toml); ./vx check "$p" --tier "${1:-quick}" | tail -1; [ "${PIPESTATUS:-0}" = 0 ] || rc=1; done
exit $rc
