import re,sys,glob
R='/repo/quil-rs/src/'
files={f:open(f).read() for f in glob.glob(R+'**/*.rs',recursive=True)}
def find_item(kind,name):
    pat=re.compile(r'^pub(?:\([a-z]+\))? '+kind+' '+name+r'\b[^\n]*\{',re.M)
    for f,s in files.items():
        m=pat.search(s)
        if m:
            i=m.start(); depth=0; j=m.end()-1
            pre=s[:i]; k=max(pre.rfind('\n\n'), pre.rfind('}\n'), pre.rfind(';\n'))
            der=re.findall(r'#\[derive\([^)]*\)\]', pre[k:] if k>=0 else pre)
            prefix='\n'.join(der)+'\n' if der else ''
            while True:
                c=s[j]
                if c=='{': depth+=1
                elif c=='}':
                    depth-=1
                    if depth==0: break
                j+=1
            return prefix+s[i:j+1]
    raise Exception('no '+name)
def clean(t):
    def keepder(m):
        names=[n.strip() for n in m.group(1).split(',')]
        keep=[n for n in names if n in ('Clone','Copy','Debug','PartialEq','Eq','Hash')]
        return ('#[derive('+', '.join(keep)+')]\n') if keep else ''
    t=re.sub(r'^\s*#\[derive\(([^)]*)\)\]\s*\n',keepder,t,flags=re.M)
    t=re.sub(r'^\s*#\[cfg_attr\((?:[^\[\]]|\[[^\]]*\])*\]\s*\n','',t,flags=re.M|re.S)
    t=re.sub(r'^\s*#\[(?!derive)[^\]]*\]\s*\n','',t,flags=re.M)
    t=re.sub(r'^\s*///.*\n','',t,flags=re.M)
    t=re.sub(r'^\s*//.*\n','',t,flags=re.M)
    t=re.sub(r'#\[pyo3[^\]]*\]\s*','',t)
    return t
structs=['SetFrequency','SetPhase','SetScale','ShiftFrequency','ShiftPhase','Arithmetic','Comparison','BinaryLogic','UnaryLogic','Move','Exchange','Load','Store','MemoryReference','Vector','MemoryRegion','FrameIdentifier','FunctionCallExpression','InfixExpression','PrefixExpression','Sharing','Offset']
enums=['ArithmeticOperand','ComparisonOperand','BinaryOperand','ArithmeticOperator','ComparisonOperator','BinaryOperator','UnaryOperator','ScalarType','Expression','ExpressionFunction','InfixOperator','PrefixOperator','Instruction','TypeError']
out=[]
for s in structs: out.append(clean(find_item('struct',s)))
for e in enums: out.append(clean(find_item('enum',e)))
body='\n'.join(out)
inst=clean(find_item('enum','Instruction'))
payload=set(re.findall(r'\((\w+)\)',inst))
have=set(structs)|set(enums)
stubs='\n'.join(f'#[derive(Clone, Debug, PartialEq)]\npub struct {p} {{ pub _o: u8 }}' for p in sorted(payload-have))
tc=files[R+'program/type_check.rs']
a=tc.index('pub type TypeResult'); b=tc.index('#[cfg(test)]')
code=tc[a:b].replace('value.im.abs() > f64::EPSILON','outlined_im_check(value.im)')
prelude='''
#[derive(Clone, Debug, PartialEq, Eq, Hash)]
pub struct QubitPlaceholder { pub _o: u8 }
#[derive(Clone, Debug, PartialEq, Eq, Hash)]
pub enum Qubit { Fixed(u64), Placeholder(QubitPlaceholder), Variable(String) }
#[derive(Clone, Copy, Debug, PartialEq)]
pub struct Complex64 { pub re: f64, pub im: f64 }
#[derive(Debug, PartialEq, Eq, Hash)]
pub struct ArcIntern<T> { pub inner: Box<T> }
impl<T> Clone for ArcIntern<T> { #[verifier::external_body] fn clone(&self) -> (r: Self) ensures r == *self { unimplemented!() } }
impl<T> std::ops::Deref for ArcIntern<T> { type Target = T; fn deref(&self) -> (r: &T) ensures *r == *self.inner { &*self.inner } }
#[verifier::external_body]
#[verifier::reject_recursive_types(K)]
#[verifier::reject_recursive_types(V)]
pub struct IndexMap<K, V> { _k: std::marker::PhantomData<(K, V)> }
impl<V> IndexMap<String, V> {
    pub uninterp spec fn view(&self) -> Map<Seq<char>, V>;
    #[verifier::external_body]
    pub fn get<Q: ?Sized + StrLike>(&self, k: &Q) -> (r: Option<&V>)
        ensures match r { Some(v) => self.view().dom().contains(k.sview()) && *v == self.view()[k.sview()], None => !self.view().dom().contains(k.sview()) }
    { unimplemented!() }
}
pub trait StrLike { spec fn sview(&self) -> Seq<char>; }
impl StrLike for String { open spec fn sview(&self) -> Seq<char> { self@ } }
impl StrLike for str { open spec fn sview(&self) -> Seq<char> { self@ } }

impl PartialEq for Expression { #[verifier::external_body] fn eq(&self, other: &Self) -> bool { unimplemented!() } }
impl Eq for Expression {}
impl std::hash::Hash for Expression { #[verifier::external_body] fn hash<H: std::hash::Hasher>(&self, state: &mut H) { unimplemented!() } }

impl PartialEq for ArithmeticOperand { #[verifier::external_body] fn eq(&self, other: &Self) -> bool { unimplemented!() } }
impl Eq for ArithmeticOperand {}
impl std::hash::Hash for ArithmeticOperand { #[verifier::external_body] fn hash<H: std::hash::Hasher>(&self, state: &mut H) { unimplemented!() } }

impl PartialEq for ComparisonOperand { #[verifier::external_body] fn eq(&self, other: &Self) -> bool { unimplemented!() } }
impl Eq for ComparisonOperand {}
impl std::hash::Hash for ComparisonOperand { #[verifier::external_body] fn hash<H: std::hash::Hasher>(&self, state: &mut H) { unimplemented!() } }
pub assume_specification<T, E, U>[ Result::<T, E>::and::<U> ](a: Result<T, E>, b: Result<U, E>) -> (r: Result<U, E>)
    ensures r == (match a { Ok(_) => b, Err(e) => Err::<U, E>(e) });
pub uninterp spec fn is_imaginary(x: f64) -> bool;
#[verifier::external_body]
fn outlined_im_check(x: f64) -> (r: bool) ensures r == is_imaginary(x) { x.abs() > f64::EPSILON }
pub struct Program { pub instructions: Vec<Instruction>, pub memory_regions: IndexMap<String, MemoryRegion> }
'''
open('p30.rs','w').write('use vstd::prelude::*;\nuse std::fmt::Debug;\nverus! {\n'+prelude+stubs+'\n'+body+'\n'+code+'\n}\nfn main() {}\n')
