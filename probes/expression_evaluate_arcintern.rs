use vstd::prelude::*;
verus! {
// stand-in for internment::ArcIntern<T>: immutable shared pointer; Deref gives the value
pub struct ArcIntern<T> { pub inner: Box<T> }
impl<T> ArcIntern<T> {
    pub fn new(x: T) -> (r: Self) ensures *r.inner == x { ArcIntern { inner: Box::new(x) } }
    pub fn as_ref(&self) -> (r: &T) ensures *r == *self.inner { &*self.inner }
}
#[derive(Clone, Copy)]
pub struct Complex64 { pub re: u64, pub im: u64 }
pub uninterp spec fn c_neg(a: Complex64) -> Complex64;
pub uninterp spec fn c_infix(a: Complex64, op: InfixOperator, b: Complex64) -> Complex64;
#[verifier::external_body]
fn neg(a: Complex64) -> (r: Complex64) ensures r == c_neg(a) { unimplemented!() }
#[verifier::external_body]
fn calculate_infix(a: Complex64, op: InfixOperator, b: Complex64) -> (r: Complex64) ensures r == c_infix(a, op, b) { unimplemented!() }
impl<T> std::ops::Deref for ArcIntern<T> {
    type Target = T;
    fn deref(&self) -> (r: &T) ensures *r == *self.inner { &*self.inner }
}
#[derive(Clone, Copy)]
pub enum InfixOperator { Plus, Minus }
pub enum PrefixOperator { Plus, Minus }
pub struct InfixExpression { pub left: ArcIntern<Expression>, pub operator: InfixOperator, pub right: ArcIntern<Expression> }
pub struct PrefixExpression { pub operator: PrefixOperator, pub expression: ArcIntern<Expression> }
pub enum Expression {
    Infix(InfixExpression),
    Number(Complex64),
    Prefix(PrefixExpression),
    Variable(String),
}
pub enum EvaluationError { Incomplete }

pub open spec fn ev(e: Expression, vars: Map<Seq<char>, Complex64>) -> Option<Complex64>
    decreases e
{
    match e {
        Expression::Infix(i) => match (ev(*i.left.inner, vars), ev(*i.right.inner, vars)) {
            (Some(l), Some(r)) => Some(c_infix(l, i.operator, r)),
            _ => None,
        },
        Expression::Number(n) => Some(n),
        Expression::Prefix(p) => match ev(*p.expression.inner, vars) {
            Some(v) => Some(if p.operator is Minus { c_neg(v) } else { v }),
            None => None,
        },
        Expression::Variable(s) => if vars.dom().contains(s@) { Some(vars[s@]) } else { None },
    }
}

#[verifier::external_body]
fn lookup(vars: &Ghost<Map<Seq<char>, Complex64>>, id: &String) -> (r: Option<Complex64>)
    ensures r == (if vars@.dom().contains(id@) { Some(vars@[id@]) } else { None::<Complex64> })
{ unimplemented!() }

impl Expression {
    pub fn evaluate(&self, variables: &Ghost<Map<Seq<char>, Complex64>>) -> (r: Result<Complex64, EvaluationError>)
        ensures (r matches Ok(v) ==> ev(*self, variables@) == Some(v)) && (r is Err ==> ev(*self, variables@) is None)
        decreases *self
    {
        use Expression::*;
        match self {
            Infix(InfixExpression { left, operator, right }) => {
                let left_evaluated = left.evaluate(variables)?;
                let right_evaluated = right.evaluate(variables)?;
                Ok(calculate_infix(left_evaluated, *operator, right_evaluated))
            }
            Prefix(PrefixExpression { operator, expression }) => {
                use PrefixOperator::*;
                let value = expression.evaluate(variables)?;
                if matches!(operator, Minus) {
                    Ok(neg(value))
                } else {
                    Ok(value)
                }
            }
            Variable(identifier) => match lookup(variables, identifier) {
                Some(value) => Ok(value),
                None => Err(EvaluationError::Incomplete),
            },
            Number(number) => Ok(*number),
        }
    }
}
}
fn main() {}
