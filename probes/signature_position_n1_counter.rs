use vstd::prelude::*;
verus! {
pub trait CalibrationSignature {
    type Signature<'a> where Self: 'a;
    spec fn has_sig_spec(&self, signature: &Self::Signature<'_>) -> bool;
    fn signature(&self) -> Self::Signature<'_>;
    fn has_signature(&self, signature: &Self::Signature<'_>) -> (r: bool) ensures r == self.has_sig_spec(signature);
}
pub axiom fn axiom_vec_len_bound<T>(v: &Vec<T>) ensures v@.len() <= usize::MAX;
pub struct CalibrationSet<T> { pub data: Vec<T> }
impl<T> CalibrationSet<T> where T: CalibrationSignature {
    fn signature_position(
        &self,
        signature: &<T as CalibrationSignature>::Signature<'_>,
    ) -> (r: Option<usize>)
        ensures match r {
            Some(i) => i < self.data@.len() && self.data@[i as int].has_sig_spec(signature)
                       && forall|j: int| 0 <= j < i ==> !self.data@[j].has_sig_spec(signature),
            None => forall|j: int| 0 <= j < self.data@.len() ==> !self.data@[j].has_sig_spec(signature),
        }
    {
        let mut i: usize = 0;
        for element in it: self.data.iter()
            invariant
                i == it.index@, it.seq().len() == self.data@.len(),
                forall|j: int| 0 <= j < i ==> !self.data@[j].has_sig_spec(signature),
        {
            if element.has_signature(signature) {
                return Some(i);
            }
            proof { axiom_vec_len_bound(&self.data); assert(it.index@ < it.seq().len()); }
            i += 1;
        }

        None
    }
}
}
fn main() {}
