use vstd::prelude::*;
verus! {
pub trait DefaultSpec: Sized { spec fn default_value() -> Self; }
impl<T> DefaultSpec for Vec<T> { uninterp spec fn default_value() -> Self; }
pub broadcast axiom fn vec_default_empty<T>() ensures #[trigger] <Vec<T> as DefaultSpec>::default_value()@ == Seq::<T>::empty();
pub assume_specification<T: Default>[ std::mem::take::<T> ](dest: &mut T) -> (r: T)
    ensures r == *old(dest);
pub struct Arithmetic { _o: u8 }
pub struct BinaryLogic { _o: u8 }
pub struct CalibrationDefinition { _o: u8 }
pub struct Call { _o: u8 }
pub struct Capture { _o: u8 }
pub struct CircuitDefinition { _o: u8 }
pub struct Comparison { _o: u8 }
pub struct Convert { _o: u8 }
pub struct Declaration { _o: u8 }
pub struct Delay { _o: u8 }
pub struct Exchange { _o: u8 }
pub struct Fence { _o: u8 }
pub struct FrameDefinition { _o: u8 }
pub struct Gate { _o: u8 }
pub struct GateDefinition { _o: u8 }
pub struct Include { _o: u8 }
pub struct Load { _o: u8 }
pub struct MeasureCalibrationDefinition { _o: u8 }
pub struct Measurement { _o: u8 }
pub struct Move { _o: u8 }
pub struct Pragma { _o: u8 }
pub struct Pulse { _o: u8 }
pub struct RawCapture { _o: u8 }
pub struct Reset { _o: u8 }
pub struct SetFrequency { _o: u8 }
pub struct SetPhase { _o: u8 }
pub struct SetScale { _o: u8 }
pub struct ShiftFrequency { _o: u8 }
pub struct ShiftPhase { _o: u8 }
pub struct Store { _o: u8 }
pub struct SwapPhases { _o: u8 }
pub struct UnaryLogic { _o: u8 }
pub struct WaveformDefinition { _o: u8 }
pub struct MemoryReference { pub name: String, pub index: u64 }
pub enum Target { Fixed(String), Placeholder(u64) }
pub struct Jump { pub target: Target }
pub struct JumpUnless { pub target: Target, pub condition: MemoryReference }
pub struct JumpWhen { pub target: Target, pub condition: MemoryReference }
pub struct Label { pub target: Target }
pub enum Instruction {
    Arithmetic(Arithmetic),
    BinaryLogic(BinaryLogic),
    CalibrationDefinition(CalibrationDefinition),
    Call(Call),
    Capture(Capture),
    CircuitDefinition(CircuitDefinition),
    Convert(Convert),
    Comparison(Comparison),
    Declaration(Declaration),
    Delay(Delay),
    Exchange(Exchange),
    Fence(Fence),
    FrameDefinition(FrameDefinition),
    Gate(Gate),
    GateDefinition(GateDefinition),
    Halt(),
    Include(Include),
    Jump(Jump),
    JumpUnless(JumpUnless),
    JumpWhen(JumpWhen),
    Label(Label),
    Load(Load),
    MeasureCalibrationDefinition(MeasureCalibrationDefinition),
    Measurement(Measurement),
    Move(Move),
    Nop(),
    Pragma(Pragma),
    Pulse(Pulse),
    RawCapture(RawCapture),
    Reset(Reset),
    SetFrequency(SetFrequency),
    SetPhase(SetPhase),
    SetScale(SetScale),
    ShiftFrequency(ShiftFrequency),
    ShiftPhase(ShiftPhase),
    Store(Store),
    SwapPhases(SwapPhases),
    UnaryLogic(UnaryLogic),
    WaveformDefinition(WaveformDefinition),
    Wait(),
}

pub struct Program { pub instructions: Vec<Instruction> }

pub struct ControlFlowGraph<'p> {
    blocks: Vec<BasicBlock<'p>>,
}
pub struct BasicBlock<'p> {
    label: Option<&'p Target>,
    instructions: Vec<&'p Instruction>,
    instruction_index_offset: usize,
    terminator: BasicBlockTerminator<'p>,
}
impl<'p> BasicBlock<'p> {
    pub fn label(&self) -> Option<&'p Target> {
        self.label
    }
}
pub enum BasicBlockTerminator<'p> {
    ConditionalJump {
        condition: &'p MemoryReference,
        target: &'p Target,
        jump_if_condition_zero: bool,
    },
    Continue,
    Jump {
        target: &'p Target,
    },
    Halt,
}
impl<'p> ControlFlowGraph<'p> { fn default() -> Self { ControlFlowGraph { blocks: Vec::new() } } }
impl<'p> From<&'p Program> for ControlFlowGraph<'p> {
    fn from(value: &'p Program) -> Self {
        let mut graph = ControlFlowGraph::default();

        let mut current_label = None;
        let mut current_block_instructions = Vec::new();
        let mut instruction_index_offset = 0;
        for instruction in &value.instructions {
            match instruction {
                Instruction::Arithmetic(_)
                | Instruction::BinaryLogic(_)
                | Instruction::Call(_)
                | Instruction::Capture(_)
                | Instruction::Convert(_)
                | Instruction::Comparison(_)
                | Instruction::Delay(_)
                | Instruction::Fence(_)
                | Instruction::Exchange(_)
                | Instruction::Gate(_)
                | Instruction::Load(_)
                | Instruction::Pragma(_)
                | Instruction::Measurement(_)
                | Instruction::Move(_)
                | Instruction::Nop()
                | Instruction::Pulse(_)
                | Instruction::RawCapture(_)
                | Instruction::Reset(_)
                | Instruction::SetFrequency(_)
                | Instruction::SetPhase(_)
                | Instruction::SetScale(_)
                | Instruction::ShiftFrequency(_)
                | Instruction::ShiftPhase(_)
                | Instruction::Store(_)
                | Instruction::SwapPhases(_)
                | Instruction::UnaryLogic(_)
                | Instruction::Wait() => current_block_instructions.push(instruction),

                Instruction::CalibrationDefinition(_)
                | Instruction::CircuitDefinition(_)
                | Instruction::Declaration(_)
                | Instruction::FrameDefinition(_)
                | Instruction::GateDefinition(_)
                | Instruction::Include(_)
                | Instruction::MeasureCalibrationDefinition(_)
                | Instruction::WaveformDefinition(_) => {}

                Instruction::Label(Label { target }) => {
                    if !current_block_instructions.is_empty() || current_label.is_some() {
                        let block = BasicBlock {
                            label: current_label.take(),
                            instructions: std::mem::take(&mut current_block_instructions),
                            instruction_index_offset,
                            terminator: BasicBlockTerminator::Continue,
                        };
                        // +1 for the label
                        instruction_index_offset += block.instructions.len() + 1;
                        graph.blocks.push(block);
                    }

                    current_label = Some(target);
                }

                Instruction::Jump(_)
                | Instruction::JumpUnless(_)
                | Instruction::JumpWhen(_)
                | Instruction::Halt() => {
                    let terminator = match instruction {
                        Instruction::Jump(jump) => BasicBlockTerminator::Jump {
                            target: &jump.target,
                        },
                        Instruction::JumpUnless(jump_unless) => {
                            BasicBlockTerminator::ConditionalJump {
                                condition: &jump_unless.condition,
                                target: &jump_unless.target,
                                jump_if_condition_zero: true,
                            }
                        }
                        Instruction::JumpWhen(jump_when) => BasicBlockTerminator::ConditionalJump {
                            condition: &jump_when.condition,
                            target: &jump_when.target,
                            jump_if_condition_zero: false,
                        },
                        Instruction::Halt() => BasicBlockTerminator::Halt,
                        _ => unreachable!(),
                    };
                    let block = BasicBlock {
                        label: current_label.take(),
                        instructions: std::mem::take(&mut current_block_instructions),
                        instruction_index_offset,
                        terminator,
                    };

                    let label_instruction_offset = if block.label().is_some() { 1 } else { 0 };
                    // +1 for this terminator instruction
                    instruction_index_offset +=
                        block.instructions.len() + 1 + label_instruction_offset;

                    graph.blocks.push(block);
                }
            }
        }

        if !current_block_instructions.is_empty() || current_label.is_some() {
            let block = BasicBlock {
                label: current_label.take(),
                instructions: current_block_instructions,
                instruction_index_offset,
                terminator: BasicBlockTerminator::Continue,
            };
            graph.blocks.push(block);
        }

        graph
    }
}


}
fn main() {}
