use vstd::prelude::*;
verus! {
pub struct Idx(pub usize);
#[verifier::reject_recursive_types_in_ground_variants(T)]
pub struct SourceMapEntry<S, T> { pub source_location: S, pub target_location: T }
#[verifier::accept_recursive_types(T)]
pub struct SourceMap<S, T> { pub entries: Vec<SourceMapEntry<S, T>> }

pub enum ExpansionResult<R> { Unmodified(Idx), Rewritten(R) }
pub struct CalibrationExpansion {
    pub range: usize,
    pub expansions: SourceMap<Idx, ExpansionResult<CalibrationExpansion>>,
}
}
fn main() {}
