use vstd::prelude::*;
verus! {
pub mod nom {
    pub enum Needed { Unknown }
    pub enum Err<E> { Incomplete(Needed), Error(E), Failure(E) }
    pub type IResult<I, O, E> = Result<(I, O), Err<E>>;
}
#[derive(Clone, Copy, Debug, PartialEq, Eq)]
pub enum Command { Add, Halt, Pulse, Capture, RawCapture }
#[derive(Clone, PartialEq)]
pub enum Token { Command(Command), NonBlocking, Identifier(String), Modifier(u8), Integer(u64) }
pub struct TokenWithLocation<'a> { pub token: Token, pub original_input: &'a str }
impl TokenWithLocation<'_> {
    pub fn as_token(&self) -> (r: &Token) ensures *r == self.token { &self.token }
}
pub type ParserInput<'a> = &'a [TokenWithLocation<'a>];
pub enum ParserErrorKind { EndOfInput, InvalidCommand { command: Command }, NotACommandOrGate }
pub struct InternalParseError<'a> { pub input: ParserInput<'a>, pub kind: ParserErrorKind }
impl<'a> InternalParseError<'a> {
    #[verifier::external_body]
    pub fn from_kind(input: ParserInput<'a>, kind: ParserErrorKind) -> Self { unimplemented!() }
    #[verifier::external_body]
    pub fn with_previous(self, p: Self) -> Self { unimplemented!() }
}
pub type InternalParserResult<'a, R> = nom::IResult<ParserInput<'a>, R, InternalParseError<'a>>;
pub enum Instruction { Halt(), Other(u8) }

#[verifier::external_body]
pub fn split_first_token<'a>(input: ParserInput<'a>) -> (r: Option<(&'a Token, ParserInput<'a>)>)
    ensures input@.len() == 0 <==> r is None,
            r matches Some((t, rest)) ==> *t == input@[0].token && rest@ == input@.subrange(1, input@.len() as int)
{
    input
        .split_first()
        .map(|(first, rest)| (first.as_token(), rest))
}

pub fn extract_nom_err<E>(err: nom::Err<E>) -> E {
    // If this ever panics, switch to returning an Option
    match err {
        nom::Err::Incomplete(_) => {
            unreachable!("can't be incomplete if all parsers are complete variants")
        }
        nom::Err::Error(inner) => inner,
        nom::Err::Failure(inner) => inner,
    }
}
pub mod command {
    use super::*;
    #[verifier::external_body] pub fn parse_arithmetic<'a>(op: u8, input: ParserInput<'a>) -> (r: InternalParserResult<'a, Instruction>) ensures !(r matches Err(nom::Err::Incomplete(_))) { unimplemented!() }
    #[verifier::external_body] pub fn parse_pulse<'a>(input: ParserInput<'a>, b: bool) -> (r: InternalParserResult<'a, Instruction>) ensures !(r matches Err(nom::Err::Incomplete(_))) { unimplemented!() }
}
pub mod gate { use super::*; #[verifier::external_body] pub fn parse_gate<'a>(input: ParserInput<'a>) -> InternalParserResult<'a, Instruction> { unimplemented!() } }

pub fn parse_instruction<'a>(input: ParserInput<'a>) -> InternalParserResult<'a, Instruction> {
    match split_first_token(input) {
        None => Err(nom::Err::Error(InternalParseError::from_kind(
            input,
            ParserErrorKind::EndOfInput,
        ))),
        Some((Token::Command(command), remainder)) => match command {
            Command::Add => command::parse_arithmetic(1, remainder),
            Command::Halt => Ok((remainder, Instruction::Halt())),
            Command::Pulse => command::parse_pulse(remainder, true),
            _ => command::parse_pulse(remainder, true),
        }
        .map_err(|err| {
            nom::Err::Failure(
                InternalParseError::from_kind(
                    &input[..1],
                    ParserErrorKind::InvalidCommand { command: *command },
                )
                .with_previous(extract_nom_err(err)),
            )
        }),
        Some((Token::NonBlocking, remainder)) => match split_first_token(remainder) {
            Some((Token::Command(command), remainder)) => match command {
                Command::Pulse => command::parse_pulse(remainder, false),
                _ => todo!(),
            },
            _ => todo!(),
        },
        Some((Token::Identifier(_), _)) | Some((Token::Modifier(_), _)) => gate::parse_gate(input),
        Some((_, _)) => Err(nom::Err::Failure(InternalParseError::from_kind(
            &input[..1],
            ParserErrorKind::NotACommandOrGate,
        ))),
    }
}
}
fn main() {}
