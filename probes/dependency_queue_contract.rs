use vstd::prelude::*;
use std::{collections::HashSet, fmt::Debug, hash::Hash};
verus! {

pub trait Access: Copy + Eq + Hash + Debug {
    type Action: Copy + Eq + Hash + Debug;
    type Read: Copy + Eq + Hash + Debug;
    type Write: Copy + Eq + Hash + Debug;
    type Dependency: Copy + Eq + Hash + Debug;

    spec fn classify_spec(self, action: Self::Action) -> AccessingAction<Self>;
    spec fn read_dep_spec(read: Self::Read) -> Self::Dependency;
    spec fn write_dep_spec(write: Self::Write) -> Self::Dependency;
    spec fn initial_writer_spec() -> Option<Self::Write>;

    fn initial_writer() -> (r: Option<Self::Write>) ensures r == Self::initial_writer_spec();
    fn classify(self, action: Self::Action) -> (r: AccessingAction<Self>) ensures r == self.classify_spec(action);
    fn read_dependency(read: Self::Read) -> (r: Self::Dependency) ensures r == Self::read_dep_spec(read);
    fn write_dependency(write: Self::Write) -> (r: Self::Dependency) ensures r == Self::write_dep_spec(write);
}

pub enum AccessingAction<A: Access> {
    Read(A::Read),
    Write(A::Write),
}

pub struct DependencyQueue<A: Access> {
    pub write: Option<A::Write>,
    pub reads: HashSet<A::Read>,
}

pub open spec fn opt_write_deps<A: Access>(w: Option<A::Write>) -> Set<A::Dependency> {
    match w { Some(w) => set![A::write_dep_spec(w)], None => Set::empty() }
}

#[verifier::external_body]
fn outlined_1<A: Access>(write: Option<A::Write>) -> (result: HashSet<A::Dependency>)
    ensures result@ == opt_write_deps::<A>(write)
{
    write.into_iter().map(A::write_dependency).collect()
}

#[verifier::external_body]
fn outlined_2<A: Access>(result: &mut HashSet<A::Dependency>, reads: &mut HashSet<A::Read>)
    ensures final(result)@ == old(result)@.union(old(reads)@.map(|r: A::Read| A::read_dep_spec(r))),
            final(reads)@ == Set::<A::Read>::empty(),
{
    result.extend(reads.drain().map(A::read_dependency));
}

impl<A: Access> DependencyQueue<A> {
    pub fn new() -> (s: Self)
        ensures s.write == A::initial_writer_spec(), s.reads@ == Set::<A::Read>::empty()
    {
        Self {
            write: A::initial_writer(),
            reads: HashSet::new(),
        }
    }

    pub fn record_access_and_get_dependencies(
        &mut self,
        action: A::Action,
        access_type: A,
    ) -> (result: HashSet<A::Dependency>)
        requires vstd::std_specs::hash::obeys_key_model::<A::Read>(), vstd::std_specs::hash::obeys_key_model::<A::Dependency>(),
        ensures
            match access_type.classify_spec(action) {
                AccessingAction::Write(w) => {
                    &&& result@ == opt_write_deps::<A>(old(self).write).union(old(self).reads@.map(|r: A::Read| A::read_dep_spec(r)))
                    &&& final(self).write == Some(w)
                    &&& final(self).reads@ == Set::<A::Read>::empty()
                }
                AccessingAction::Read(r) => {
                    &&& result@ == opt_write_deps::<A>(old(self).write)
                    &&& final(self).write == old(self).write
                    &&& final(self).reads@ == old(self).reads@.insert(r)
                }
            }
    {
        let mut result: HashSet<_> = outlined_1::<A>(self.write);

        match access_type.classify(action) {
            AccessingAction::Write(write) => {
                outlined_2::<A>(&mut result, &mut self.reads);
                self.write = Some(write);
            }
            AccessingAction::Read(read) => {
                self.reads.insert(read);
            }
        }

        result
    }
}
}
fn main() {}
