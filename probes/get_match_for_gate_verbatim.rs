use vstd::prelude::*;
use std::ops::Range;
verus! {
#[derive(Clone, Debug, PartialEq)]
pub enum Qubit { Fixed(u64), Placeholder(u64), Variable(String) }
#[derive(Clone, Debug, PartialEq)]
pub struct Gate { pub name: String, pub qubits: Vec<Qubit> }
#[derive(Clone, Debug, PartialEq)]
pub struct CalibrationIdentifier { pub name: String, pub qubits: Vec<Qubit> }
impl CalibrationIdentifier {
    #[verifier::external_body]
    pub fn matches(&self, gate: &Gate) -> bool { unimplemented!() }
}
#[derive(Clone, Debug, PartialEq)]
pub struct CalibrationDefinition { pub identifier: CalibrationIdentifier }
pub struct CalibrationSet<T> { pub data: Vec<T> }
impl<T> CalibrationSet<T> {
    pub fn iter(&self) -> std::slice::Iter<'_, T> {
        self.data.iter()
    }
}
pub struct Calibrations { pub calibrations: CalibrationSet<CalibrationDefinition> }
struct MatchedCalibration<'a> {
    pub calibration: &'a CalibrationDefinition,
    pub fixed_qubit_count: usize,
}
impl<'a> MatchedCalibration<'a> {
    #[verifier::external_body]
    pub fn new(calibration: &'a CalibrationDefinition) -> Self { unimplemented!() }
}
impl Calibrations {
    pub fn iter_calibrations(
        &self,
    ) -> impl DoubleEndedIterator<Item = &CalibrationDefinition> + std::iter::FusedIterator {
        self.calibrations.iter()
    }
    pub fn get_match_for_gate(&self, gate: &Gate) -> Option<&CalibrationDefinition> {
        let mut matched_calibration: Option<MatchedCalibration> = None;

        for calibration in self
            .iter_calibrations()
            .filter(|calibration| calibration.identifier.matches(gate))
        {
            matched_calibration = match matched_calibration {
                None => Some(MatchedCalibration::new(calibration)),
                Some(previous_match) => {
                    let potential_match = MatchedCalibration::new(calibration);
                    if potential_match.fixed_qubit_count >= previous_match.fixed_qubit_count {
                        Some(potential_match)
                    } else {
                        Some(previous_match)
                    }
                }
            }
        }

        matched_calibration.map(|m| m.calibration)
    }
}

// C19
#[derive(Clone, Copy, Debug, PartialEq, Eq, PartialOrd, Ord)]
pub struct InstructionIndex(pub usize);
impl InstructionIndex {
    fn map(self, f: impl FnOnce(usize) -> usize) -> Self {
        Self(f(self.0))
    }
}
pub struct SourceMapEntry<S, T> { pub source_location: S, pub target_location: T }
#[verifier::accept_recursive_types(T)]
pub struct SourceMap<S, T> { pub entries: Vec<SourceMapEntry<S, T>> }
#[verifier::accept_recursive_types(R)]
pub enum ExpansionResult<R> { Unmodified(InstructionIndex), Rewritten(R) }
pub struct CalibrationExpansion {
    pub range: Range<InstructionIndex>,
    pub expansions: SourceMap<InstructionIndex, ExpansionResult<CalibrationExpansion>>,
}
impl CalibrationExpansion {
    pub fn remove_target_index(&mut self, target_index: InstructionIndex) {
        // Adjust the start of the range if the target index is before the range
        if self.range.start >= target_index {
            self.range.start = self.range.start.map(|v| v.saturating_sub(1));
        }

        // Adjust the end of the range if the target index is before the end of the range
        if self.range.end > target_index {
            self.range.end = self.range.end.map(|v| v.saturating_sub(1));
        }

    }
}
}
fn main() {}
