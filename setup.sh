#!/bin/sh
# Offline setup after a fresh restore: build the replay binary against /repo and warm Verus up.
set -e
cd /verif/replay
cp /repo/Cargo.lock Cargo.lock
CARGO_NET_OFFLINE=true CARGO_TARGET_DIR=/verif/.cache/replay-target cargo build --offline --quiet || echo "replay build failed (only needed to replay witnesses)"
cd /verif
mkdir -p .work evidence replay/out
printf 'use vstd::prelude::*;\nverus!{ proof fn warm() ensures 1 + 1 == 2int {} }\nfn main(){}\n' > .work/warm.rs
verus .work/warm.rs >/dev/null 2>&1 || true
echo setup done
