//! Replays a witness against the real quil-rs crate (public API only).
//! usage: vreplay <kind> <file with the input text>
//! prints lines `RESULT: ok` or `RESULT: violated <what>`; a panic/abort is visible from the exit status.
use std::str::FromStr;

use quil_rs::instruction::Instruction;
use quil_rs::program::analysis::ControlFlowGraph;
use quil_rs::Program;

fn main() {
    let args: Vec<String> = std::env::args().collect();
    if args.len() < 3 {
        eprintln!("usage: vreplay <kind> <input file>");
        std::process::exit(64);
    }
    let input = std::fs::read_to_string(&args[2]).expect("readable input file");
    let verdict = match args[1].as_str() {
        "cfg_offsets" => cfg_offsets(&input),
        "parse_program" => parse_program(&input),
        other => {
            eprintln!("unknown replay kind {other}");
            std::process::exit(64);
        }
    };
    match verdict {
        Ok(()) => println!("RESULT: ok"),
        Err(e) => println!("RESULT: violated {e}"),
    }
}

/// C01: parsing returns a value or an error (a panic shows as exit status 101)
fn parse_program(text: &str) -> Result<(), String> {
    match Program::from_str(text) {
        Ok(p) => println!("parsed: {} body instructions", p.body_instructions().count()),
        Err(e) => println!("parse error: {}", e.to_string().lines().next().unwrap_or("")),
    }
    Ok(())
}

/// C28: each block's offset is the body position of its first element
fn cfg_offsets(text: &str) -> Result<(), String> {
    let program = Program::from_str(text).map_err(|e| format!("input does not parse: {e}"))?;
    let body: Vec<Instruction> = program.body_instructions().cloned().collect();
    let graph = ControlFlowGraph::from(&program);
    let mut rendered: Vec<Instruction> = vec![];
    for (k, block) in graph.into_blocks().into_iter().enumerate() {
        let off = block.instruction_index_offset();
        println!("block {k}: offset {off}, label {:?}, {} instructions", block.label(), block.instructions().len());
        if off != rendered.len() {
            return Err(format!(
                "block {k} reports offset {off} but its first element is body position {}",
                rendered.len()
            ));
        }
        if let Some(l) = block.label() {
            rendered.push(Instruction::Label(quil_rs::instruction::Label { target: l.clone() }));
        }
        rendered.extend(block.instructions().iter().map(|i| (*i).clone()));
        if let Some(t) = block.terminator().clone().into_instruction() {
            rendered.push(t);
        }
    }
    let body_wo_include: Vec<Instruction> =
        body.into_iter().filter(|i| !matches!(i, Instruction::Include(_))).collect();
    if rendered != body_wo_include {
        return Err("blocks written out in order do not reproduce the body".to_string());
    }
    Ok(())
}
