//! Replays a witness against the real quil-rs crate (public API only).
//! usage: vreplay <kind> <file with the input text>
//! prints lines `RESULT: ok` or `RESULT: violated <what>`; a panic/abort is visible from the exit status.
use std::str::FromStr;

use quil_rs::instruction::Instruction;
use quil_rs::program::analysis::ControlFlowGraph;
use quil_rs::Program;

fn main() {
    let args: Vec<String> = std::env::args().collect();
    if args.len() < 3 {
        eprintln!("usage: vreplay <kind> <input file>");
        std::process::exit(64);
    }
    let input = std::fs::read_to_string(&args[2]).expect("readable input file");
    let verdict = match args[1].as_str() {
        "cfg_offsets" => cfg_offsets(&input),
        "parse_program" => parse_program(&input),
        "instruction_views" => instruction_views(&input),
        "used_qubits" => used_qubits(&input, true),
        // (without clone_without_body_instructions, whose defect is a known finding: used to look for witnesses of OTHER violations)
        "used_qubits_other_ops" => used_qubits(&input, false),
        "serialize_repeat" => serialize_repeat(&input),
        "literal_exact" => literal_exact(&input),
        "expr_literal" => expr_literal(&input),
        "loop_runs" => loop_runs(&input),
        "subst_signed_zero" => subst_signed_zero(&input),
        "measure_match" => measure_match(&input),
        "name_spelling" => name_spelling(&input),
        "simplify_value" => simplify_value(&input),
        "frame_match" => frame_match(&input),
        "expand_terminates" => expand_terminates(&input),
        "source_map_tiles" => source_map_tiles(&input),
        "nested_map_tiles" => nested_map_tiles(&input),
        other => {
            eprintln!("unknown replay kind {other}");
            std::process::exit(64);
        }
    };
    match verdict {
        Ok(()) => println!("RESULT: ok"),
        Err(e) => println!("RESULT: violated {e}"),
    }
}

/// C01: parsing returns a value or an error (a panic shows as exit status 101)
fn parse_program(text: &str) -> Result<(), String> {
    match Program::from_str(text) {
        Ok(p) => println!("parsed: {} body instructions", p.body_instructions().count()),
        Err(e) => println!("parse error: {}", e.to_string().lines().next().unwrap_or("")),
    }
    Ok(())
}

/// C28: each block's offset is the body position of its first element
fn cfg_offsets(text: &str) -> Result<(), String> {
    let program = Program::from_str(text).map_err(|e| format!("input does not parse: {e}"))?;
    let body: Vec<Instruction> = program.body_instructions().cloned().collect();
    let graph = ControlFlowGraph::from(&program);
    let mut rendered: Vec<Instruction> = vec![];
    for (k, block) in graph.into_blocks().into_iter().enumerate() {
        let off = block.instruction_index_offset();
        println!("block {k}: offset {off}, label {:?}, {} instructions", block.label(), block.instructions().len());
        if off != rendered.len() {
            return Err(format!(
                "block {k} reports offset {off} but its first element is body position {}",
                rendered.len()
            ));
        }
        if let Some(l) = block.label() {
            rendered.push(Instruction::Label(quil_rs::instruction::Label { target: l.clone() }));
        }
        rendered.extend(block.instructions().iter().map(|i| (*i).clone()));
        if let Some(t) = block.terminator().clone().into_instruction() {
            rendered.push(t);
        }
    }
    let conditional = body.iter().any(|i| matches!(i, Instruction::JumpWhen(_) | Instruction::JumpUnless(_)));
    let reported = ControlFlowGraph::from(&program).has_dynamic_control_flow();
    println!("conditional jump in the body: {conditional}; has_dynamic_control_flow: {reported}");
    if conditional != reported {
        return Err(format!("has_dynamic_control_flow is {reported} but the body {} a conditional jump", if conditional { "has" } else { "has no" }));
    }
    let body_wo_include: Vec<Instruction> =
        body.into_iter().filter(|i| !matches!(i, Instruction::Include(_))).collect();
    if rendered != body_wo_include {
        return Err("blocks written out in order do not reproduce the body".to_string());
    }
    Ok(())
}

/// C09: the copying and the consuming listing agree; rebuilding from the listing gives an equal program
fn instruction_views(text: &str) -> Result<(), String> {
    let program = Program::from_str(text).map_err(|e| format!("input does not parse: {e}"))?;
    let copied = program.to_instructions();
    let consumed = program.clone().into_instructions();
    if copied != consumed {
        let show = |v: &Vec<Instruction>| {
            v.iter().map(|i| quil_rs::quil::Quil::to_quil_or_debug(i)).collect::<Vec<_>>().join(" | ")
        };
        return Err(format!(
            "to_instructions and into_instructions differ:\n  to:   {}\n  into: {}",
            show(&copied),
            show(&consumed)
        ));
    }
    let rebuilt = Program::from_instructions(copied);
    if rebuilt != program {
        return Err("Program::from_instructions(p.to_instructions()) != p".to_string());
    }
    Ok(())
}

/// C10: the used-qubit set equals the qubits mentioned by the instruction listing, after each operation
fn used_qubits(text: &str, with_clone_without_body: bool) -> Result<(), String> {
    use std::collections::HashSet;
    let program = Program::from_str(&text.replace("\n=====\n", "\n")).map_err(|e| format!("input does not parse: {e}"))?;
    let check = |what: &str, p: &Program| -> Result<(), String> {
        let mentioned: HashSet<quil_rs::instruction::Qubit> =
            p.to_instructions().iter().flat_map(|i| i.get_qubits().into_iter().cloned()).collect();
        println!("{what}: used {:?} mentioned {:?}", p.get_used_qubits(), mentioned);
        if &mentioned != p.get_used_qubits() {
            return Err(format!("{what}: used-qubit set {:?} but the instructions mention {:?}", p.get_used_qubits(), mentioned));
        }
        let rebuilt = Program::from_instructions(p.to_instructions());
        if &rebuilt != p {
            return Err(format!("{what}: not equal to the program rebuilt from its own instruction listing"));
        }
        Ok(())
    };
    // `=====` on a line of its own separates two programs: the property is then checked for their sum as well
    if let Some((a, b)) = text.split_once("\n=====\n") {
        let pa = Program::from_str(a).map_err(|e| format!("first program does not parse: {e}"))?;
        let pb = Program::from_str(b).map_err(|e| format!("second program does not parse: {e}"))?;
        check("first", &pa)?;
        check("second", &pb)?;
        let mut sum = pa.clone();
        sum += pb.clone();
        check("first += second", &sum)?;
        return check("first + second", &(pa + pb));
    }
    check("parsed", &program)?;
    if with_clone_without_body {
        check("clone_without_body_instructions", &program.clone_without_body_instructions())?;
    }
    check("program + program", &(program.clone() + program.clone()))?;
    // (expand_calibrations starts from clone_without_body_instructions and inherits its known defect)
    if with_clone_without_body {
        if let Ok(expanded) = program.expand_calibrations() {
            check("expand_calibrations", &expanded)?;
        }
    }
    if let Ok(expanded) = program.clone().expand_defgate_sequences(|_| true) {
        check("expand_defgate_sequences", &expanded)?;
    }
    if let Ok((expanded, _)) = program.expand_defgate_sequences_with_source_map(|_| true) {
        check("expand_defgate_sequences_with_source_map", &expanded)?;
    }
    Ok(())
}

/// C08: building a program from the same instructions always gives byte-identical text, definitions in the
/// order they were first added
fn serialize_repeat(text: &str) -> Result<(), String> {
    use quil_rs::quil::Quil;
    let first = Program::from_str(text).map_err(|e| format!("input does not parse: {e}"))?;
    let reference = first.to_quil().map_err(|e| format!("{e}"))?;
    let mut distinct = std::collections::BTreeSet::new();
    distinct.insert(reference.clone());
    for _ in 0..24 {
        let again = Program::from_instructions(first.to_instructions());
        distinct.insert(again.to_quil().map_err(|e| format!("{e}"))?);
        let parsed = Program::from_str(text).map_err(|e| format!("{e}"))?;
        distinct.insert(parsed.to_quil().map_err(|e| format!("{e}"))?);
    }
    println!("{} distinct serializations of the same instruction sequence", distinct.len());
    if distinct.len() > 1 {
        let mut it = distinct.iter();
        return Err(format!(
            "the same instruction sequence serialized to {} different texts, e.g.\n--- A\n{}\n--- B\n{}",
            distinct.len(),
            it.next().unwrap(),
            it.next().unwrap()
        ));
    }
    Ok(())
}

/// C05: each input line is `MOVE ro <literal>`; the integer literal must come back with its exact mathematical
/// value, or the line must be rejected — never wrapped
fn literal_exact(text: &str) -> Result<(), String> {
    use quil_rs::instruction::{ArithmeticOperand, Move};
    for line in text.lines().filter(|l| !l.trim().is_empty()) {
        let literal = line.trim().rsplit(' ').next().unwrap_or("");
        let expected: Option<i128> = literal.parse::<i128>().ok();
        let parsed = Program::from_str(line);
        match (&parsed, expected) {
            (Ok(p), Some(want)) => {
                let got = p.body_instructions().next().and_then(|i| match i {
                    Instruction::Move(Move { source: ArithmeticOperand::LiteralInteger(v), .. }) => Some(*v as i128),
                    _ => None,
                });
                println!("{line}  =>  {got:?}");
                if got != Some(want) {
                    return Err(format!("`{line}`: literal {want} was parsed as {got:?}"));
                }
            }
            (Ok(_), None) => println!("{line}  =>  parsed (not an integer literal)"),
            (Err(_), Some(want)) => {
                println!("{line}  =>  rejected");
                if want >= i64::MIN as i128 && want <= i64::MAX as i128 {
                    return Err(format!("`{line}`: representable literal {want} was rejected"));
                }
            }
            (Err(_), None) => println!("{line}  =>  rejected"),
        }
    }
    Ok(())
}

/// C06: a memory region referenced inside an expression keeps the spelling it was declared with
fn name_spelling(text: &str) -> Result<(), String> {
    let program = Program::from_str(text).map_err(|e| format!("input does not parse: {e}"))?;
    let declared: Vec<&String> = program.memory_regions.keys().collect();
    for instruction in program.body_instructions() {
        if let Instruction::Gate(gate) = instruction {
            for parameter in &gate.parameters {
                for reference in parameter.memory_references() {
                    println!("expression references region `{}`; declared: {:?}", reference.name, declared);
                    if !declared.contains(&&reference.name) {
                        return Err(format!(
                            "expression refers to region `{}` but the program declares {:?}",
                            reference.name, declared
                        ));
                    }
                }
            }
        }
    }
    Ok(())
}

/// C12: each input line is an expression; its simplified form must evaluate to the same (finite) value at a few
/// generic assignments, must not mention new variables / memory references, and must not be the constant pi
fn simplify_value(text: &str) -> Result<(), String> {
    use quil_rs::expression::Expression;
    use std::collections::{HashMap, HashSet};
    let assignments: [[(f64, f64); 4]; 3] = [
        [(1.3, 0.2), (2.1, -0.4), (-0.7, 0.0), (0.45, 1.1)],
        [(0.0, 0.0), (0.3, 0.0), (1.9, 0.0), (4.0, 0.0)],
        [(0.9, -1.7), (-3.2, 0.6), (0.01, 0.0), (7.5, -0.3)],
    ];
    let names = ["x", "y", "z", "w"];
    for line in text.lines().filter(|l| !l.trim().is_empty()) {
        let original = Expression::from_str(line).map_err(|e| format!("`{line}` does not parse: {e}"))?;
        let simplified = original.clone().into_simplified();
        if matches!(simplified, Expression::PiConstant()) {
            return Err(format!("`{line}` simplified to the symbolic constant pi"));
        }
        let refs_before: HashSet<_> = original.memory_references().cloned().collect();
        for r in simplified.memory_references() {
            if !refs_before.contains(r) {
                return Err(format!("`{line}`: simplification introduced memory reference {r:?}"));
            }
        }
        for a in assignments.iter() {
            let mut vars: HashMap<String, num_complex::Complex64> = HashMap::new();
            for (n, (re, im)) in names.iter().zip(a.iter()) {
                vars.insert((*n).to_string(), num_complex::Complex64::new(*re, *im));
            }
            let mem: HashMap<&str, Vec<f64>> = HashMap::from([("m", vec![0.75, -1.25])]);
            let before = original.evaluate(&vars, &mem);
            let after = simplified.evaluate(&vars, &mem);
            if let Ok(b) = before {
                if !(b.re.is_finite() && b.im.is_finite()) {
                    continue;
                }
                match after {
                    Ok(s) => {
                        let tol = 1e-9 * (1.0 + b.norm());
                        if (b - s).norm() > tol {
                            return Err(format!(
                                "`{line}` evaluates to {b} but its simplified form to {s} at x={:?}, y={:?}, z={:?}, w={:?}",
                                a[0], a[1], a[2], a[3]
                            ));
                        }
                    }
                    Err(e) => return Err(format!("`{line}`: the simplified form does not evaluate: {e:?}")),
                }
            }
        }
        println!("{line}  ok");
    }
    Ok(())
}

/// C26: for every body instruction, the frames the default handler reports as used / blocked follow the Quil-T rules
fn frame_match(text: &str) -> Result<(), String> {
    use quil_rs::instruction::{DefaultHandler, FrameIdentifier, InstructionHandler, Qubit};
    use std::collections::HashSet;
    let program = Program::from_str(text).map_err(|e| format!("input does not parse: {e}"))?;
    let defined: HashSet<&FrameIdentifier> = program.frames.get_keys().into_iter().collect();
    let shares = |f: &FrameIdentifier, qs: &HashSet<&Qubit>| f.qubits.iter().any(|q| qs.contains(q));
    let exactly = |f: &FrameIdentifier, qs: &HashSet<&Qubit>| f.qubits.iter().collect::<HashSet<_>>() == *qs;
    for instruction in program.body_instructions() {
        let Some(m) = DefaultHandler.matching_frames(&program, instruction) else { continue };
        let show = quil_rs::quil::Quil::to_quil_or_debug(instruction);
        println!("{show}: used {} blocked {}", m.used.len(), m.blocked.len());
        if let Some(f) = m.used.iter().chain(m.blocked.iter()).find(|f| !defined.contains(*f)) {
            return Err(format!("`{show}`: reported frame {f:?} is not defined in the program"));
        }
        if let Some(f) = m.used.intersection(&m.blocked).next() {
            return Err(format!("`{show}`: frame {f:?} is reported both as used and as blocked"));
        }
        let expect = |what: &str, got: &HashSet<&FrameIdentifier>, want: HashSet<&FrameIdentifier>| -> Result<(), String> {
            if *got != want {
                return Err(format!("`{show}`: {what} frames are {got:?} but the rules give {want:?}"));
            }
            Ok(())
        };
        let own = |frame: &FrameIdentifier, blocking: bool| -> Result<(), String> {
            let qs: HashSet<&Qubit> = frame.qubits.iter().collect();
            expect("used", &m.used, defined.iter().copied().filter(|f| *f == frame).collect())?;
            expect(
                "blocked",
                &m.blocked,
                defined.iter().copied().filter(|f| blocking && *f != frame && shares(f, &qs)).collect(),
            )
        };
        match instruction {
            Instruction::Pulse(p) => own(&p.frame, p.blocking)?,
            Instruction::Capture(p) => own(&p.frame, p.blocking)?,
            Instruction::RawCapture(p) => own(&p.frame, p.blocking)?,
            Instruction::SetFrequency(p) => own(&p.frame, false)?,
            Instruction::SetPhase(p) => own(&p.frame, false)?,
            Instruction::SetScale(p) => own(&p.frame, false)?,
            Instruction::ShiftFrequency(p) => own(&p.frame, false)?,
            Instruction::ShiftPhase(p) => own(&p.frame, false)?,
            Instruction::SwapPhases(p) => {
                expect("used", &m.used, defined.iter().copied().filter(|f| **f == p.frame_1 || **f == p.frame_2).collect())?;
                expect("blocked", &m.blocked, HashSet::new())?;
            }
            Instruction::Fence(p) => {
                let qs: HashSet<&Qubit> = p.qubits.iter().collect();
                expect("used", &m.used, defined.iter().copied().filter(|f| p.qubits.is_empty() || shares(f, &qs)).collect())?;
                expect("blocked", &m.blocked, HashSet::new())?;
            }
            Instruction::Delay(p) => {
                let qs: HashSet<&Qubit> = p.qubits.iter().collect();
                expect(
                    "used",
                    &m.used,
                    defined
                        .iter()
                        .copied()
                        .filter(|f| exactly(f, &qs) && (p.frame_names.is_empty() || p.frame_names.contains(&f.name)))
                        .collect(),
                )?;
                expect("blocked", &m.blocked, HashSet::new())?;
            }
            Instruction::Reset(quil_rs::instruction::Reset { qubit: Some(q) }) => {
                let qs: HashSet<&Qubit> = [q].into_iter().collect();
                expect("used", &m.used, defined.iter().copied().filter(|f| exactly(f, &qs)).collect())?;
                expect("blocked", &m.blocked, defined.iter().copied().filter(|f| shares(f, &qs) && !exactly(f, &qs)).collect())?;
            }
            _ => {}
        }
    }
    Ok(())
}

/// C18: expanding calibrations returns (the program or a recursive-calibration error); a stack overflow aborts this
/// process, which the caller sees as a non-zero exit status
fn expand_terminates(text: &str) -> Result<(), String> {
    let program = Program::from_str(text).map_err(|e| format!("input does not parse: {e}"))?;
    match program.expand_calibrations() {
        Ok(p) => println!("expanded: {} body instructions", p.body_instructions().count()),
        Err(e) => {
            println!("error: {e}");
            if !matches!(e, quil_rs::program::ProgramError::RecursiveCalibration(_)) {
                return Err(format!("expansion failed with an error other than a recursive calibration: {e}"));
            }
        }
    }
    Ok(())
}

/// C19: the top-level source map of a calibration expansion has its entries in source order, and their target
/// ranges tile the output body; an unmodified entry points to an identical instruction
fn source_map_tiles(text: &str) -> Result<(), String> {
    use quil_rs::program::ExpansionResult;
    let program = Program::from_str(text).map_err(|e| format!("input does not parse: {e}"))?;
    let (expanded, map) = program.expand_calibrations_with_source_map().map_err(|e| format!("expansion failed: {e}"))?;
    let plain = program.expand_calibrations().map_err(|e| format!("expansion failed: {e}"))?;
    if plain != expanded {
        return Err("expanding with and without a source map gives different programs".to_string());
    }
    let source: Vec<&Instruction> = program.body_instructions().collect();
    let target: Vec<&Instruction> = expanded.body_instructions().collect();
    let mut next_target = 0usize;
    let mut last_source: Option<usize> = None;
    for entry in map.entries() {
        let s = entry.source_location().0;
        if let Some(prev) = last_source {
            if s <= prev {
                return Err(format!("entries are not in source order: {s} after {prev}"));
            }
        }
        last_source = Some(s);
        match entry.target_location() {
            ExpansionResult::Unmodified(t) => {
                println!("source {s} -> unmodified {}", t.0);
                if t.0 != next_target {
                    return Err(format!("unmodified entry for source {s} points to {} but the next uncovered target is {next_target}", t.0));
                }
                if target.get(t.0) != source.get(s) {
                    return Err(format!("unmodified entry for source {s} points to a different instruction"));
                }
                next_target += 1;
            }
            ExpansionResult::Rewritten(x) => {
                println!("source {s} -> rewritten {}..{}", x.range().start.0, x.range().end.0);
                if x.range().start.0 != next_target || x.range().end.0 < x.range().start.0 {
                    return Err(format!(
                        "rewritten entry for source {s} covers {}..{} but the next uncovered target is {next_target}",
                        x.range().start.0,
                        x.range().end.0
                    ));
                }
                next_target = x.range().end.0;
            }
        }
    }
    if next_target != target.len() {
        return Err(format!("the entries cover {next_target} target instructions but the output body has {}", target.len()));
    }
    Ok(())
}

/// C19 (nested part): inside every rewritten entry, the nested records are relative to the parent range and tile it
fn nested_map_tiles(text: &str) -> Result<(), String> {
    use quil_rs::program::{CalibrationExpansion, ExpansionResult};
    let program = Program::from_str(text).map_err(|e| format!("input does not parse: {e}"))?;
    let (expanded, map) = program.expand_calibrations_with_source_map().map_err(|e| format!("expansion failed: {e}"))?;
    println!("expanded body:");
    for (k, i) in expanded.body_instructions().enumerate() {
        println!("  {k}: {}", quil_rs::quil::Quil::to_quil_or_debug(i));
    }
    fn check(x: &CalibrationExpansion, depth: usize) -> Result<(), String> {
        let len = x.range().end.0 - x.range().start.0;
        println!("{}expansion of {:?} covers {}..{}", "  ".repeat(depth), x.calibration_used(), x.range().start.0, x.range().end.0);
        let mut next = 0usize;
        for entry in x.expansions().entries() {
            match entry.target_location() {
                ExpansionResult::Unmodified(t) => {
                    println!("{}  source {} -> unmodified {}", "  ".repeat(depth), entry.source_location().0, t.0);
                    if t.0 != next {
                        return Err(format!("nested unmodified entry points to {} but the next uncovered index of its parent is {next}", t.0));
                    }
                    next += 1;
                }
                ExpansionResult::Rewritten(inner) => {
                    println!("{}  source {} -> rewritten {}..{}", "  ".repeat(depth), entry.source_location().0, inner.range().start.0, inner.range().end.0);
                    if inner.range().start.0 != next {
                        return Err(format!(
                            "nested rewritten entry covers {}..{} (relative to its parent) but the next uncovered index of the parent is {next}",
                            inner.range().start.0,
                            inner.range().end.0
                        ));
                    }
                    next = inner.range().end.0;
                    check(inner, depth + 1)?;
                }
            }
        }
        if !x.expansions().entries().is_empty() && next != len {
            return Err(format!("nested entries cover {next} instructions but the parent range has {len}"));
        }
        Ok(())
    }
    for entry in map.entries() {
        if let ExpansionResult::Rewritten(x) = entry.target_location() {
            check(x, 0)?;
        }
    }
    Ok(())
}

/// C05 (expressions): each line is an unsigned integer literal (decimal, 0x, 0o, 0b); as an expression it must be the
/// number with that value (rounded to the nearest f64), or be rejected
fn expr_literal(text: &str) -> Result<(), String> {
    use quil_rs::expression::Expression;
    for line in text.lines().map(str::trim).filter(|l| !l.is_empty()) {
        let digits = line.replace('_', "");
        let want: Option<u128> = if let Some(h) = digits.strip_prefix("0x") {
            u128::from_str_radix(h, 16).ok()
        } else if let Some(o) = digits.strip_prefix("0o") {
            u128::from_str_radix(o, 8).ok()
        } else if let Some(b) = digits.strip_prefix("0b") {
            u128::from_str_radix(b, 2).ok()
        } else {
            digits.parse::<u128>().ok()
        };
        match (Expression::from_str(line), want) {
            (Ok(Expression::Number(c)), Some(v)) => {
                println!("{line}  =>  {c}");
                if c.re != v as f64 || c.im != 0.0 {
                    return Err(format!("`{line}`: the literal {v} became the number {c}"));
                }
            }
            (Ok(other), _) => println!("{line}  =>  {other:?}"),
            (Err(_), _) => println!("{line}  =>  rejected"),
        }
    }
    Ok(())
}

/// C33: first line `n=<iterations> counter=<name>[<index>]`, then a program; the wrapped program, run with the
/// documented meaning of MOVE / SUB / JUMP-WHEN, must execute every body instruction exactly n times and stop
fn loop_runs(text: &str) -> Result<(), String> {
    use quil_rs::instruction::{ArithmeticOperand, ArithmeticOperator, MemoryReference, Target};
    use std::collections::HashMap;
    let (head, rest) = text.split_once('\n').ok_or("missing header line")?;
    let mut n = 2u32;
    let mut counter = MemoryReference { name: "loop_counter".to_string(), index: 0 };
    for part in head.split_whitespace() {
        if let Some(v) = part.strip_prefix("n=") {
            n = v.parse().map_err(|e| format!("bad n: {e}"))?;
        } else if let Some(v) = part.strip_prefix("counter=") {
            counter = MemoryReference::from_str(v).map_err(|e| format!("bad counter: {e}"))?;
        }
    }
    let program = Program::from_str(rest).map_err(|e| format!("input does not parse: {e}"))?;
    let body: Vec<Instruction> = program.body_instructions().cloned().collect();
    let wrapped = program.wrap_in_loop(counter.clone(), Target::Fixed("loop_start".to_string()), n);
    let listing: Vec<Instruction> = wrapped.body_instructions().cloned().collect();
    println!("{}", quil_rs::quil::Quil::to_quil_or_debug(&wrapped));
    let mut memory: HashMap<(String, u64), i64> = HashMap::new();
    let mut executed: Vec<Instruction> = vec![];
    let (mut pc, mut steps) = (0usize, 0usize);
    while pc < listing.len() {
        steps += 1;
        if steps > 200_000 {
            return Err(format!("the wrapped program did not stop within 200000 steps (n = {n}, counter {}[{}])", counter.name, counter.index));
        }
        match &listing[pc] {
            Instruction::Move(m) => {
                if let ArithmeticOperand::LiteralInteger(v) = m.source {
                    memory.insert((m.destination.name.clone(), m.destination.index), v);
                }
            }
            Instruction::Arithmetic(a) if a.operator == ArithmeticOperator::Subtract => {
                if let ArithmeticOperand::LiteralInteger(v) = a.source {
                    *memory.entry((a.destination.name.clone(), a.destination.index)).or_insert(0) -= v;
                }
            }
            Instruction::JumpWhen(j) => {
                if memory.get(&(j.condition.name.clone(), j.condition.index)).copied().unwrap_or(0) != 0 {
                    pc = listing
                        .iter()
                        .position(|i| matches!(i, Instruction::Label(l) if l.target == j.target))
                        .ok_or("jump to an undefined label")?;
                    continue;
                }
            }
            Instruction::Label(_) => {}
            other => executed.push(other.clone()),
        }
        pc += 1;
    }
    let expected: Vec<Instruction> = if n == 0 { vec![] } else { (0..n).flat_map(|_| body.iter().cloned()).collect() };
    if executed != expected {
        return Err(format!("the body has {} instructions and n = {n}, but {} body instructions were executed", body.len(), executed.len()));
    }
    Ok(())
}

/// C13: each line is an expression over %x and %y; with x = -4+0i and y = -4-0i (equal as numbers, different in the
/// sign of the zero imaginary part) substituting and then evaluating must agree with evaluating with the bindings
fn subst_signed_zero(text: &str) -> Result<(), String> {
    use num_complex::Complex64;
    use quil_rs::expression::Expression;
    use std::collections::HashMap;
    let x = Complex64::new(-4.0, 0.0);
    let y = Complex64::new(-4.0, -0.0);
    for line in text.lines().map(str::trim).filter(|l| !l.is_empty()) {
        let e = Expression::from_str(line).map_err(|e| format!("`{line}` does not parse: {e}"))?;
        let bindings: HashMap<String, Complex64> = HashMap::from([("x".to_string(), x), ("y".to_string(), y)]);
        let values: HashMap<String, Expression> =
            HashMap::from([("x".to_string(), Expression::Number(x)), ("y".to_string(), Expression::Number(y))]);
        let memory: HashMap<&str, Vec<f64>> = HashMap::new();
        let direct = e.evaluate(&bindings, &memory).map_err(|e| format!("{e:?}"))?;
        let substituted = e.substitute_variables(&values);
        let after = substituted.evaluate(&HashMap::<String, Complex64>::new(), &memory).map_err(|e| format!("{e:?}"))?;
        println!("{line}: with bindings {direct}, after substitution {after}");
        if (direct - after).norm() > 1e-9 {
            return Err(format!(
                "`{line}` with x = -4+0i, y = -4-0i evaluates to {direct} with the bindings but to {after} after substituting them"
            ));
        }
    }
    Ok(())
}

/// C16 (measurements): for every MEASURE in the body, the calibration found is the last definition with an exact
/// fixed-qubit match, else the last one with a variable qubit, among those with the same name and record/effect kind
fn measure_match(text: &str) -> Result<(), String> {
    use quil_rs::instruction::Qubit;
    let program = Program::from_str(text).map_err(|e| format!("input does not parse: {e}"))?;
    let definitions: Vec<_> = program.calibrations.iter_measure_calibrations().collect();
    for instruction in program.body_instructions() {
        let Instruction::Measurement(m) = instruction else { continue };
        let (mut exact, mut wildcard) = (None, None);
        for d in &definitions {
            let id = &d.identifier;
            if id.name != m.name || id.target.is_some() != m.target.is_some() {
                continue;
            }
            match &id.qubit {
                q @ Qubit::Fixed(_) if *q == m.qubit => exact = Some(*d),
                Qubit::Variable(_) => wildcard = Some(*d),
                _ => {}
            }
        }
        let expected = exact.or(wildcard);
        let found = program.calibrations.get_match_for_measurement(m);
        let show = |d: Option<&quil_rs::instruction::MeasureCalibrationDefinition>| {
            d.map(|d| quil_rs::quil::Quil::to_quil_or_debug(d).replace('\n', " | ")).unwrap_or_else(|| "none".to_string())
        };
        println!("{}: {}", quil_rs::quil::Quil::to_quil_or_debug(instruction), show(found));
        if found != expected {
            return Err(format!(
                "`{}` is matched with [{}] but the rules give [{}]",
                quil_rs::quil::Quil::to_quil_or_debug(instruction),
                show(found),
                show(expected)
            ));
        }
    }
    Ok(())
}
