//! Replays a witness against the real quil-rs crate (public API only).
//! usage: vreplay <kind> <file with the input text>
//! prints lines `RESULT: ok` or `RESULT: violated <what>`; a panic/abort is visible from the exit status.
use std::str::FromStr;

use quil_rs::instruction::Instruction;
use quil_rs::program::analysis::ControlFlowGraph;
use quil_rs::Program;

fn main() {
    let args: Vec<String> = std::env::args().collect();
    if args.len() < 3 {
        eprintln!("usage: vreplay <kind> <input file>");
        std::process::exit(64);
    }
    let input = std::fs::read_to_string(&args[2]).expect("readable input file");
    let verdict = match args[1].as_str() {
        "cfg_offsets" => cfg_offsets(&input),
        "parse_program" => parse_program(&input),
        "instruction_views" => instruction_views(&input),
        "used_qubits" => used_qubits(&input, true),
        // (without clone_without_body_instructions, whose defect is a known finding: used to look for witnesses of OTHER violations)
        "used_qubits_other_ops" => used_qubits(&input, false),
        "serialize_repeat" => serialize_repeat(&input),
        "literal_exact" => literal_exact(&input),
        "real_literal" => real_literal(&input),
        "expr_literal" => expr_literal(&input),
        "loop_runs" => loop_runs(&input),
        "subst_signed_zero" => subst_signed_zero(&input),
        "measure_match" => measure_match(&input),
        "name_spelling" => name_spelling(&input),
        "simplify_value" => simplify_value(&input),
        "frame_match" => frame_match(&input),
        "expand_terminates" => expand_terminates(&input),
        "source_map_tiles" => source_map_tiles(&input),
        "nested_map_tiles" => nested_map_tiles(&input, false),
        "nested_unmodified_entries" => nested_map_tiles(&input, true),
        "frame_order" => dependency_order(&input, true),
        "memory_order" => dependency_order(&input, false),
        "concat" => concat(&input),
        "eval_subst" => eval_subst(&input),
        "call_resolve" => call_resolve(&input),
        "extern_roundtrip" => extern_roundtrip(&input),
        "gate_match" => gate_match(&input),
        "memory_accesses" => memory_accesses(&input),
        "type_check_oracle" => type_check_oracle(&input),
        other => {
            eprintln!("unknown replay kind {other}");
            std::process::exit(64);
        }
    };
    match verdict {
        Ok(()) => println!("RESULT: ok"),
        Err(e) => println!("RESULT: violated {e}"),
    }
}

/// C01: parsing returns a value or an error (a panic shows as exit status 101)
fn parse_program(text: &str) -> Result<(), String> {
    match Program::from_str(text) {
        Ok(p) => println!("parsed: {} body instructions", p.body_instructions().count()),
        Err(e) => println!("parse error: {}", e.to_string().lines().next().unwrap_or("")),
    }
    Ok(())
}

/// C28: each block's offset is the body position of its first element
fn cfg_offsets(text: &str) -> Result<(), String> {
    let program = Program::from_str(text).map_err(|e| format!("input does not parse: {e}"))?;
    let body: Vec<Instruction> = program.body_instructions().cloned().collect();
    let graph = ControlFlowGraph::from(&program);
    let mut rendered: Vec<Instruction> = vec![];
    for (k, block) in graph.into_blocks().into_iter().enumerate() {
        let off = block.instruction_index_offset();
        println!("block {k}: offset {off}, label {:?}, {} instructions", block.label(), block.instructions().len());
        if off != rendered.len() {
            return Err(format!(
                "block {k} reports offset {off} but its first element is body position {}",
                rendered.len()
            ));
        }
        if let Some(l) = block.label() {
            rendered.push(Instruction::Label(quil_rs::instruction::Label { target: l.clone() }));
        }
        rendered.extend(block.instructions().iter().map(|i| (*i).clone()));
        if let Some(t) = block.terminator().clone().into_instruction() {
            rendered.push(t);
        }
    }
    let conditional = body.iter().any(|i| matches!(i, Instruction::JumpWhen(_) | Instruction::JumpUnless(_)));
    let reported = ControlFlowGraph::from(&program).has_dynamic_control_flow();
    println!("conditional jump in the body: {conditional}; has_dynamic_control_flow: {reported}");
    if conditional != reported {
        return Err(format!("has_dynamic_control_flow is {reported} but the body {} a conditional jump", if conditional { "has" } else { "has no" }));
    }
    let body_wo_include: Vec<Instruction> =
        body.into_iter().filter(|i| !matches!(i, Instruction::Include(_))).collect();
    if rendered != body_wo_include {
        return Err("blocks written out in order do not reproduce the body".to_string());
    }
    Ok(())
}

/// C09: the copying and the consuming listing agree; rebuilding from the listing gives an equal program
fn instruction_views(text: &str) -> Result<(), String> {
    let program = Program::from_str(text).map_err(|e| format!("input does not parse: {e}"))?;
    let copied = program.to_instructions();
    let consumed = program.clone().into_instructions();
    if copied != consumed {
        let show = |v: &Vec<Instruction>| {
            v.iter().map(|i| quil_rs::quil::Quil::to_quil_or_debug(i)).collect::<Vec<_>>().join(" | ")
        };
        return Err(format!(
            "to_instructions and into_instructions differ:\n  to:   {}\n  into: {}",
            show(&copied),
            show(&consumed)
        ));
    }
    // the body is exactly what is not a definition (DEFCAL, DEFCIRCUIT, DEFFRAME, DECLARE, DEFGATE, DEFCAL MEASURE,
    // DEFWAVEFORM, PRAGMA EXTERN — the name spelled exactly so), in listing order
    let is_definition = |i: &Instruction| match i {
        Instruction::CalibrationDefinition(_)
        | Instruction::CircuitDefinition(_)
        | Instruction::FrameDefinition(_)
        | Instruction::Declaration(_)
        | Instruction::GateDefinition(_)
        | Instruction::MeasureCalibrationDefinition(_)
        | Instruction::WaveformDefinition(_) => true,
        Instruction::Pragma(p) => p.name == "EXTERN",
        _ => false,
    };
    let expected_body: Vec<Instruction> = copied.iter().filter(|i| !is_definition(i)).cloned().collect();
    let body: Vec<Instruction> = program.body_instructions().cloned().collect();
    if body != expected_body {
        return Err(format!(
            "the body has {} instructions but the listing has {} that are not definitions (or they differ)",
            body.len(),
            expected_body.len()
        ));
    }
    let rebuilt = Program::from_instructions(copied);
    if rebuilt != program {
        return Err("Program::from_instructions(p.to_instructions()) != p".to_string());
    }
    // "each keyed definition keeps only its last value", in the order it was first added
    definition_order(text, &program)
}

/// C10: the used-qubit set equals the qubits mentioned by the instruction listing, after each operation
fn used_qubits(text: &str, with_clone_without_body: bool) -> Result<(), String> {
    use std::collections::HashSet;
    let program = Program::from_str(&text.replace("\n=====\n", "\n")).map_err(|e| format!("input does not parse: {e}"))?;
    let check = |what: &str, p: &Program| -> Result<(), String> {
        let mentioned: HashSet<quil_rs::instruction::Qubit> =
            p.to_instructions().iter().flat_map(|i| i.get_qubits().into_iter().cloned()).collect();
        println!("{what}: used {:?} mentioned {:?}", p.get_used_qubits(), mentioned);
        if &mentioned != p.get_used_qubits() {
            return Err(format!("{what}: used-qubit set {:?} but the instructions mention {:?}", p.get_used_qubits(), mentioned));
        }
        let rebuilt = Program::from_instructions(p.to_instructions());
        if &rebuilt != p {
            return Err(format!("{what}: not equal to the program rebuilt from its own instruction listing"));
        }
        Ok(())
    };
    // `=====` on a line of its own separates two programs: the property is then checked for their sum as well
    if let Some((a, b)) = text.split_once("\n=====\n") {
        let pa = Program::from_str(a).map_err(|e| format!("first program does not parse: {e}"))?;
        let pb = Program::from_str(b).map_err(|e| format!("second program does not parse: {e}"))?;
        check("first", &pa)?;
        check("second", &pb)?;
        let mut sum = pa.clone();
        sum += pb.clone();
        check("first += second", &sum)?;
        return check("first + second", &(pa + pb));
    }
    check("parsed", &program)?;
    if with_clone_without_body {
        check("clone_without_body_instructions", &program.clone_without_body_instructions())?;
    }
    check("program + program", &(program.clone() + program.clone()))?;
    // (expand_calibrations starts from clone_without_body_instructions and inherits its known defect)
    if with_clone_without_body {
        if let Ok(expanded) = program.expand_calibrations() {
            check("expand_calibrations", &expanded)?;
        }
    }
    if let Ok(expanded) = program.clone().expand_defgate_sequences(|_| true) {
        check("expand_defgate_sequences", &expanded)?;
    }
    {
        // placeholders can only be built through the API: one in a calibration (which resolution leaves alone), one in the body
        use quil_rs::instruction::{CalibrationDefinition, CalibrationIdentifier, Gate, Qubit, QubitPlaceholder};
        let in_calibration = Qubit::Placeholder(QubitPlaceholder::default());
        let in_body = Qubit::Placeholder(QubitPlaceholder::default());
        let mut with_placeholders = program.clone();
        if let (Ok(g1), Ok(g2)) = (Gate::new("X", vec![], vec![in_calibration.clone()], vec![]), Gate::new("Y", vec![], vec![in_body.clone()], vec![])) {
            with_placeholders.add_instruction(Instruction::CalibrationDefinition(CalibrationDefinition {
                identifier: CalibrationIdentifier { modifiers: vec![], name: "PLACEHOLDERCAL".to_string(), parameters: vec![], qubits: vec![Qubit::Fixed(77)] },
                instructions: vec![Instruction::Gate(g1)],
            }));
            with_placeholders.add_instruction(Instruction::Gate(g2));
            check("placeholders added", &with_placeholders)?;
            with_placeholders.resolve_placeholders();
            check("resolve_placeholders", &with_placeholders)?;
        }
    }
    if let Ok((expanded, _)) = program.expand_defgate_sequences_with_source_map(|_| true) {
        check("expand_defgate_sequences_with_source_map", &expanded)?;
    }
    Ok(())
}

/// C08: building a program from the same instructions always gives byte-identical text, definitions in the
/// order they were first added
fn serialize_repeat(text: &str) -> Result<(), String> {
    use quil_rs::quil::Quil;
    let first = Program::from_str(text).map_err(|e| format!("input does not parse: {e}"))?;
    let reference = first.to_quil().map_err(|e| format!("{e}"))?;
    let mut distinct = std::collections::BTreeSet::new();
    distinct.insert(reference.clone());
    for _ in 0..24 {
        let again = Program::from_instructions(first.to_instructions());
        distinct.insert(again.to_quil().map_err(|e| format!("{e}"))?);
        let parsed = Program::from_str(text).map_err(|e| format!("{e}"))?;
        distinct.insert(parsed.to_quil().map_err(|e| format!("{e}"))?);
    }
    definition_order(text, &first)?;
    println!("{} distinct serializations of the same instruction sequence", distinct.len());
    if distinct.len() > 1 {
        let mut it = distinct.iter();
        return Err(format!(
            "the same instruction sequence serialized to {} different texts, e.g.\n--- A\n{}\n--- B\n{}",
            distinct.len(),
            it.next().unwrap(),
            it.next().unwrap()
        ));
    }
    Ok(())
}

/// "Within each definition kind, output follows the order in which each definition was first added, and a
/// redefinition with the same key replaces the earlier one in place": the statements of the text are parsed one by one
/// to recover the sequence that was added (C08; also what calibration matching relies on, C16)
fn definition_order(text: &str, first: &Program) -> Result<(), String> {
    let mut statements: Vec<String> = vec![];
    for line in text.lines() {
        if line.trim().is_empty() {
            continue;
        }
        if line.starts_with(char::is_whitespace) && !statements.is_empty() {
            let last = statements.last_mut().unwrap();
            last.push('\n');
            last.push_str(line);
        } else {
            statements.push(line.to_string());
        }
    }
    let mut added: Vec<Instruction> = vec![];
    for st in &statements {
        if let Ok(p) = Program::from_str(st) {
            added.extend(p.into_instructions());
        }
    }
    fn first_added_order<K: PartialEq + Clone, V: Clone>(items: Vec<(K, V)>) -> Vec<(K, V)> {
        let mut out: Vec<(K, V)> = vec![];
        for (k, v) in items {
            if let Some(slot) = out.iter_mut().find(|(k2, _)| *k2 == k) {
                slot.1 = v;
            } else {
                out.push((k, v));
            }
        }
        out
    }
    let cals = first_added_order(added.iter().filter_map(|i| if let Instruction::CalibrationDefinition(c) = i { Some((c.identifier.clone(), c.clone())) } else { None }).collect());
    let got: Vec<_> = first.calibrations.iter_calibrations().cloned().collect();
    if got != cals.iter().map(|(_, c)| c.clone()).collect::<Vec<_>>() {
        return Err("DEFCALs are not listed in the order in which each was first added (redefinitions in place)".to_string());
    }
    let mcals = first_added_order(added.iter().filter_map(|i| if let Instruction::MeasureCalibrationDefinition(c) = i { Some((c.identifier.clone(), c.clone())) } else { None }).collect());
    let got: Vec<_> = first.calibrations.iter_measure_calibrations().cloned().collect();
    if got != mcals.iter().map(|(_, c)| c.clone()).collect::<Vec<_>>() {
        return Err("DEFCAL MEASUREs are not listed in the order in which each was first added (redefinitions in place)".to_string());
    }
    let gates = first_added_order(added.iter().filter_map(|i| if let Instruction::GateDefinition(g) = i { Some((g.name.clone(), g.clone())) } else { None }).collect());
    if first.gate_definitions.iter().map(|(k, v)| (k.clone(), v.clone())).collect::<Vec<_>>() != gates {
        return Err("DEFGATEs are not listed in the order in which each was first added (redefinitions in place)".to_string());
    }
    let decls = first_added_order(added.iter().filter_map(|i| if let Instruction::Declaration(d) = i { Some((d.name.clone(), d.clone())) } else { None }).collect());
    if first.memory_regions.keys().cloned().collect::<Vec<_>>() != decls.iter().map(|(k, _)| k.clone()).collect::<Vec<_>>() {
        return Err("DECLAREs are not listed in the order in which each was first added".to_string());
    }
    let externs = first_added_order(
        added
            .iter()
            .filter_map(|i| match i {
                Instruction::Pragma(p) if p.name == "EXTERN" => Some((
                    match p.arguments.first() {
                        Some(quil_rs::instruction::PragmaArgument::Identifier(n)) => Some(n.clone()),
                        _ => None,
                    },
                    p.clone(),
                )),
                _ => None,
            })
            .collect(),
    );
    let listed: Vec<_> = first.to_instructions().into_iter().filter_map(|i| match i { Instruction::Pragma(p) if p.name == "EXTERN" => Some(p), _ => None }).collect();
    if listed != externs.iter().map(|(_, p)| p.clone()).collect::<Vec<_>>() {
        return Err("PRAGMA EXTERNs are not listed in the order in which each was first added (redefinitions in place)".to_string());
    }
    // frames are a map: each identifier keeps the attributes of its last definition, nothing of an earlier one
    for i in added.iter() {
        if let Instruction::FrameDefinition(f) = i {
            let last = added.iter().rev().find_map(|j| match j {
                Instruction::FrameDefinition(g) if g.identifier == f.identifier => Some(&g.attributes),
                _ => None,
            });
            if first.frames.get(&f.identifier) != last {
                return Err(format!("frame {} does not have exactly the attributes of its last definition", quil_rs::quil::Quil::to_quil_or_debug(&f.identifier)));
            }
        }
    }
    let waves = first_added_order(added.iter().filter_map(|i| if let Instruction::WaveformDefinition(w) = i { Some((w.name.clone(), w.definition.clone())) } else { None }).collect());
    if first.waveforms.iter().map(|(k, v)| (k.clone(), v.clone())).collect::<Vec<_>>() != waves {
        return Err("DEFWAVEFORMs are not listed in the order in which each was first added (redefinitions in place)".to_string());
    }
    Ok(())
}

/// C05: each input line is `MOVE ro <literal>`; the integer literal must come back with its exact mathematical
/// value, or the line must be rejected — never wrapped
fn literal_exact(text: &str) -> Result<(), String> {
    use quil_rs::instruction::{ArithmeticOperand, Move};
    for line in text.lines().filter(|l| !l.trim().is_empty()) {
        let literal = line.trim().rsplit(' ').next().unwrap_or("");
        let expected: Option<i128> = literal.parse::<i128>().ok();
        let parsed = Program::from_str(line);
        match (&parsed, expected) {
            (Ok(p), Some(want)) => {
                let got = p.body_instructions().next().and_then(|i| match i {
                    Instruction::Move(Move { source: ArithmeticOperand::LiteralInteger(v), .. }) => Some(*v as i128),
                    _ => None,
                });
                println!("{line}  =>  {got:?}");
                if got != Some(want) {
                    return Err(format!("`{line}`: literal {want} was parsed as {got:?}"));
                }
            }
            (Ok(_), None) => println!("{line}  =>  parsed (not an integer literal)"),
            (Err(_), Some(want)) => {
                println!("{line}  =>  rejected");
                if want >= i64::MIN as i128 && want <= i64::MAX as i128 {
                    return Err(format!("`{line}`: representable literal {want} was rejected"));
                }
            }
            (Err(_), None) => println!("{line}  =>  rejected"),
        }
    }
    Ok(())
}

/// C06: a memory region referenced inside an expression keeps the spelling it was declared with
fn name_spelling(text: &str) -> Result<(), String> {
    let program = Program::from_str(text).map_err(|e| format!("input does not parse: {e}"))?;
    let declared: Vec<&String> = program.memory_regions.keys().collect();
    // gate, label, waveform, frame and pragma names: each must occur in the text as written (same letter case)
    let words: std::collections::HashSet<&str> = text
        .split(|c: char| !(c.is_alphanumeric() || c == '_' || c == '-'))
        .filter(|w| !w.is_empty())
        .collect();
    let spelled = |what: &str, name: &str| -> Result<(), String> {
        if name.split(|c: char| !(c.is_alphanumeric() || c == '_' || c == '-')).all(|part| part.is_empty() || words.contains(part)) {
            Ok(())
        } else {
            Err(format!("{what} `{name}` is not spelled like that anywhere in the text"))
        }
    };
    for instruction in program.to_instructions().iter() {
        match instruction {
            Instruction::Gate(g) => spelled("gate name", &g.name)?,
            Instruction::GateDefinition(g) => spelled("gate definition name", &g.name)?,
            Instruction::CalibrationDefinition(c) => spelled("calibration name", &c.identifier.name)?,
            Instruction::WaveformDefinition(w) => spelled("waveform name", &w.name)?,
            Instruction::Pragma(p) => spelled("pragma name", &p.name)?,
            Instruction::Pulse(p) => {
                spelled("frame name", &p.frame.name)?;
                spelled("waveform name", &p.waveform.name)?;
            }
            Instruction::FrameDefinition(f) => spelled("frame name", &f.identifier.name)?,
            Instruction::Declaration(d) => spelled("region name", &d.name)?,
            Instruction::Label(quil_rs::instruction::Label { target: quil_rs::instruction::Target::Fixed(l) }) => spelled("label", l)?,
            Instruction::Jump(quil_rs::instruction::Jump { target: quil_rs::instruction::Target::Fixed(l) }) => spelled("jump target", l)?,
            Instruction::CircuitDefinition(c) => spelled("circuit name", &c.name)?,
            _ => {}
        }
    }
    for instruction in program.body_instructions() {
        if let Instruction::Gate(gate) = instruction {
            for parameter in &gate.parameters {
                for reference in parameter.memory_references() {
                    println!("expression references region `{}`; declared: {:?}", reference.name, declared);
                    if !declared.contains(&&reference.name) {
                        return Err(format!(
                            "expression refers to region `{}` but the program declares {:?}",
                            reference.name, declared
                        ));
                    }
                }
            }
        }
    }
    Ok(())
}

/// C12: each input line is an expression; its simplified form must evaluate to the same (finite) value at a few
/// generic assignments, must not mention new variables / memory references, and must not be the constant pi
fn simplify_value(text: &str) -> Result<(), String> {
    use quil_rs::expression::Expression;
    use std::collections::{HashMap, HashSet};
    let assignments: [[(f64, f64); 4]; 3] = [
        [(1.3, 0.2), (2.1, -0.4), (-0.7, 0.0), (0.45, 1.1)],
        [(0.0, 0.0), (0.3, 0.0), (1.9, 0.0), (4.0, 0.0)],
        [(0.9, -1.7), (-3.2, 0.6), (0.01, 0.0), (7.5, -0.3)],
    ];
    let names = ["x", "y", "z", "w"];
    for line in text.lines().filter(|l| !l.trim().is_empty()) {
        let original = Expression::from_str(line).map_err(|e| format!("`{line}` does not parse: {e}"))?;
        let simplified = original.clone().into_simplified();
        if matches!(simplified, Expression::PiConstant()) {
            return Err(format!("`{line}` simplified to the symbolic constant pi"));
        }
        let refs_before: HashSet<_> = original.memory_references().cloned().collect();
        for r in simplified.memory_references() {
            if !refs_before.contains(r) {
                return Err(format!("`{line}`: simplification introduced memory reference {r:?}"));
            }
        }
        for a in assignments.iter() {
            let mut vars: HashMap<String, num_complex::Complex64> = HashMap::new();
            for (n, (re, im)) in names.iter().zip(a.iter()) {
                vars.insert((*n).to_string(), num_complex::Complex64::new(*re, *im));
            }
            let mem: HashMap<&str, Vec<f64>> = HashMap::from([("m", vec![0.75, -1.25])]);
            let before = original.evaluate(&vars, &mem);
            let after = simplified.evaluate(&vars, &mem);
            if let Ok(b) = before {
                if !(b.re.is_finite() && b.im.is_finite()) {
                    continue;
                }
                match after {
                    Ok(s) => {
                        let tol = 1e-9 * (1.0 + b.norm());
                        if (b - s).norm() > tol {
                            return Err(format!(
                                "`{line}` evaluates to {b} but its simplified form to {s} at x={:?}, y={:?}, z={:?}, w={:?}",
                                a[0], a[1], a[2], a[3]
                            ));
                        }
                    }
                    Err(e) => return Err(format!("`{line}`: the simplified form does not evaluate: {e:?}")),
                }
            }
        }
        println!("{line}  ok");
    }
    Ok(())
}

/// C26: for every body instruction, the frames the default handler reports as used / blocked follow the Quil-T rules
fn frame_match(text: &str) -> Result<(), String> {
    use quil_rs::instruction::{DefaultHandler, FrameIdentifier, InstructionHandler, Qubit};
    use std::collections::HashSet;
    let program = Program::from_str(text).map_err(|e| format!("input does not parse: {e}"))?;
    let defined: HashSet<&FrameIdentifier> = program.frames.get_keys().into_iter().collect();
    let shares = |f: &FrameIdentifier, qs: &HashSet<&Qubit>| f.qubits.iter().any(|q| qs.contains(q));
    let exactly = |f: &FrameIdentifier, qs: &HashSet<&Qubit>| f.qubits.iter().collect::<HashSet<_>>() == *qs;
    for instruction in program.body_instructions() {
        let Some(m) = DefaultHandler.matching_frames(&program, instruction) else { continue };
        let show = quil_rs::quil::Quil::to_quil_or_debug(instruction);
        println!("{show}: used {} blocked {}", m.used.len(), m.blocked.len());
        if let Some(f) = m.used.iter().chain(m.blocked.iter()).find(|f| !defined.contains(*f)) {
            return Err(format!("`{show}`: reported frame {f:?} is not defined in the program"));
        }
        if let Some(f) = m.used.intersection(&m.blocked).next() {
            return Err(format!("`{show}`: frame {f:?} is reported both as used and as blocked"));
        }
        let expect = |what: &str, got: &HashSet<&FrameIdentifier>, want: HashSet<&FrameIdentifier>| -> Result<(), String> {
            if *got != want {
                return Err(format!("`{show}`: {what} frames are {got:?} but the rules give {want:?}"));
            }
            Ok(())
        };
        let own = |frame: &FrameIdentifier, blocking: bool| -> Result<(), String> {
            let qs: HashSet<&Qubit> = frame.qubits.iter().collect();
            expect("used", &m.used, defined.iter().copied().filter(|f| *f == frame).collect())?;
            expect(
                "blocked",
                &m.blocked,
                defined.iter().copied().filter(|f| blocking && *f != frame && shares(f, &qs)).collect(),
            )
        };
        match instruction {
            Instruction::Pulse(p) => own(&p.frame, p.blocking)?,
            Instruction::Capture(p) => own(&p.frame, p.blocking)?,
            Instruction::RawCapture(p) => own(&p.frame, p.blocking)?,
            Instruction::SetFrequency(p) => own(&p.frame, false)?,
            Instruction::SetPhase(p) => own(&p.frame, false)?,
            Instruction::SetScale(p) => own(&p.frame, false)?,
            Instruction::ShiftFrequency(p) => own(&p.frame, false)?,
            Instruction::ShiftPhase(p) => own(&p.frame, false)?,
            Instruction::SwapPhases(p) => {
                expect("used", &m.used, defined.iter().copied().filter(|f| **f == p.frame_1 || **f == p.frame_2).collect())?;
                expect("blocked", &m.blocked, HashSet::new())?;
            }
            Instruction::Fence(p) => {
                let qs: HashSet<&Qubit> = p.qubits.iter().collect();
                expect("used", &m.used, defined.iter().copied().filter(|f| p.qubits.is_empty() || shares(f, &qs)).collect())?;
                expect("blocked", &m.blocked, HashSet::new())?;
            }
            Instruction::Delay(p) => {
                let qs: HashSet<&Qubit> = p.qubits.iter().collect();
                expect(
                    "used",
                    &m.used,
                    defined
                        .iter()
                        .copied()
                        .filter(|f| exactly(f, &qs) && (p.frame_names.is_empty() || p.frame_names.contains(&f.name)))
                        .collect(),
                )?;
                expect("blocked", &m.blocked, HashSet::new())?;
            }
            Instruction::Reset(quil_rs::instruction::Reset { qubit: Some(q) }) => {
                let qs: HashSet<&Qubit> = [q].into_iter().collect();
                expect("used", &m.used, defined.iter().copied().filter(|f| exactly(f, &qs)).collect())?;
                expect("blocked", &m.blocked, defined.iter().copied().filter(|f| shares(f, &qs) && !exactly(f, &qs)).collect())?;
            }
            _ => {}
        }
    }
    Ok(())
}

/// C18: expanding calibrations returns (the program or a recursive-calibration error); a stack overflow aborts this
/// process, which the caller sees as a non-zero exit status
fn expand_terminates(text: &str) -> Result<(), String> {
    let program = Program::from_str(text).map_err(|e| format!("input does not parse: {e}"))?;
    let expect_ok = text.lines().next().map_or(false, |l| l.trim() == "# expect ok");
    let expect_recursive = text.lines().next().map_or(false, |l| l.trim() == "# expect recursive");
    match program.expand_calibrations() {
        Ok(p) => {
            println!("expanded: {} body instructions", p.body_instructions().count());
            if expect_recursive {
                return Err("a calibration that invokes itself expanded without an error".to_string());
            }
        }
        Err(e) => {
            println!("error: {e}");
            if expect_ok {
                return Err(format!("no calibration invokes itself here, but expansion failed: {e}"));
            }
            if !matches!(e, quil_rs::program::ProgramError::RecursiveCalibration(_)) {
                return Err(format!("expansion failed with an error other than a recursive calibration: {e}"));
            }
        }
    }
    Ok(())
}

/// C19: the top-level source map of a calibration expansion has its entries in source order, and their target
/// ranges tile the output body; an unmodified entry points to an identical instruction
fn source_map_tiles(text: &str) -> Result<(), String> {
    use quil_rs::program::ExpansionResult;
    let program = Program::from_str(text).map_err(|e| format!("input does not parse: {e}"))?;
    let (expanded, map) = program.expand_calibrations_with_source_map().map_err(|e| format!("expansion failed: {e}"))?;
    let plain = program.expand_calibrations().map_err(|e| format!("expansion failed: {e}"))?;
    if plain != expanded {
        return Err("expanding with and without a source map gives different programs".to_string());
    }
    let source: Vec<&Instruction> = program.body_instructions().collect();
    let target: Vec<&Instruction> = expanded.body_instructions().collect();
    let mut next_target = 0usize;
    let mut last_source: Option<usize> = None;
    for entry in map.entries() {
        let s = entry.source_location().0;
        if let Some(prev) = last_source {
            if s <= prev {
                return Err(format!("entries are not in source order: {s} after {prev}"));
            }
        }
        last_source = Some(s);
        match entry.target_location() {
            ExpansionResult::Unmodified(t) => {
                println!("source {s} -> unmodified {}", t.0);
                if t.0 != next_target {
                    return Err(format!("unmodified entry for source {s} points to {} but the next uncovered target is {next_target}", t.0));
                }
                if target.get(t.0) != source.get(s) {
                    return Err(format!("unmodified entry for source {s} points to a different instruction"));
                }
                next_target += 1;
            }
            ExpansionResult::Rewritten(x) => {
                println!("source {s} -> rewritten {}..{}", x.range().start.0, x.range().end.0);
                if x.range().start.0 != next_target || x.range().end.0 < x.range().start.0 {
                    return Err(format!(
                        "rewritten entry for source {s} covers {}..{} but the next uncovered target is {next_target}",
                        x.range().start.0,
                        x.range().end.0
                    ));
                }
                next_target = x.range().end.0;
            }
        }
    }
    if next_target != target.len() {
        return Err(format!("the entries cover {next_target} target instructions but the output body has {}", target.len()));
    }
    // "querying sources of a target and targets of a source are inverse": every target instruction has exactly one
    // source, that source lists a target covering it, and every source lists at most one target
    use quil_rs::program::{InstructionIndex, SourceMapIndexable};
    for t in 0..target.len() {
        let sources = map.list_sources(&InstructionIndex(t));
        if sources.len() != 1 {
            return Err(format!("target instruction {t} has {} sources", sources.len()));
        }
        let back = map.list_targets(sources[0]);
        if !back.iter().any(|x| x.contains(&InstructionIndex(t))) {
            return Err(format!("target {t} comes from source {} but none of that source's targets covers it", sources[0].0));
        }
    }
    for s in 0..source.len() {
        let targets = map.list_targets(&InstructionIndex(s));
        if targets.len() > 1 {
            return Err(format!("source instruction {s} has {} target entries", targets.len()));
        }
        for x in targets {
            for t in 0..target.len() {
                if x.contains(&InstructionIndex(t)) && map.list_sources(&InstructionIndex(t)) != vec![&InstructionIndex(s)] {
                    return Err(format!("source {s} lists target {t}, whose sources are not just {s}"));
                }
            }
        }
    }
    Ok(())
}

/// C19 (nested part): inside every rewritten entry, the nested records are relative to the parent range and tile it.
/// `unmodified_too` = false checks the nested *rewritten* ranges (where each starts is recomputed from the entries
/// before it: a nested entry whose calibration-body instruction is a definition — hoisted out of the body — takes no
/// room, every other one takes its own length); `unmodified_too` = true also checks the indices stored in nested
/// unmodified entries and that entries of hoisted instructions are gone.
fn nested_map_tiles(text: &str, unmodified_too: bool) -> Result<(), String> {
    use quil_rs::program::{CalibrationExpansion, CalibrationSource, ExpansionResult};
    let program = Program::from_str(text).map_err(|e| format!("input does not parse: {e}"))?;
    let (expanded, map) = program.expand_calibrations_with_source_map().map_err(|e| format!("expansion failed: {e}"))?;
    println!("expanded body:");
    for (k, i) in expanded.body_instructions().enumerate() {
        println!("  {k}: {}", quil_rs::quil::Quil::to_quil_or_debug(i));
    }
    let hoisted = |i: &Instruction| match i {
        Instruction::CalibrationDefinition(_)
        | Instruction::CircuitDefinition(_)
        | Instruction::FrameDefinition(_)
        | Instruction::Declaration(_)
        | Instruction::GateDefinition(_)
        | Instruction::MeasureCalibrationDefinition(_)
        | Instruction::WaveformDefinition(_) => true,
        Instruction::Pragma(p) => p.name == "EXTERN",
        _ => false,
    };
    // which instructions of the calibration's own body are definitions (substitution does not change the kind)
    let body_kinds = |source: &CalibrationSource| -> Option<Vec<bool>> {
        match source {
            CalibrationSource::Calibration(id) => program
                .calibrations
                .iter_calibrations()
                .find(|c| &c.identifier == id)
                .map(|c| c.instructions.iter().map(|i| hoisted(i)).collect()),
            CalibrationSource::MeasureCalibration(id) => program
                .calibrations
                .iter_measure_calibrations()
                .find(|c| &c.identifier == id)
                .map(|c| c.instructions.iter().map(|i| hoisted(i)).collect()),
        }
    };
    fn check(
        x: &CalibrationExpansion,
        depth: usize,
        unmodified_too: bool,
        body_kinds: &dyn Fn(&CalibrationSource) -> Option<Vec<bool>>,
    ) -> Result<(), String> {
        let len = x.range().end.0 - x.range().start.0;
        let pad = "  ".repeat(depth);
        println!("{pad}expansion of {:?} covers {}..{}", x.calibration_used(), x.range().start.0, x.range().end.0);
        let kinds = body_kinds(x.calibration_used()).ok_or("the calibration an expansion names is not in the program")?;
        let mut next = 0usize;
        for entry in x.expansions().entries() {
            let s = entry.source_location().0;
            let is_hoisted = *kinds.get(s).ok_or(format!("nested source index {s} outside the calibration body"))?;
            match entry.target_location() {
                ExpansionResult::Unmodified(t) => {
                    println!("{pad}  source {s} -> unmodified {}{}", t.0, if is_hoisted { " (a definition: hoisted)" } else { "" });
                    if is_hoisted {
                        if unmodified_too {
                            return Err(format!("nested entry for source {s} (a definition, hoisted out of the body) is still there, pointing to {}", t.0));
                        }
                    } else {
                        if unmodified_too && t.0 != next {
                            return Err(format!("nested unmodified entry for source {s} points to {} but it is instruction {next} of its parent's range", t.0));
                        }
                        next += 1;
                    }
                }
                ExpansionResult::Rewritten(inner) => {
                    println!("{pad}  source {s} -> rewritten {}..{}", inner.range().start.0, inner.range().end.0);
                    if inner.range().start.0 != next || inner.range().end.0 < next {
                        return Err(format!(
                            "nested rewritten entry covers {}..{} (relative to its parent) but the next uncovered index of the parent is {next}",
                            inner.range().start.0,
                            inner.range().end.0
                        ));
                    }
                    next = inner.range().end.0;
                    check(inner, depth + 1, unmodified_too, body_kinds)?;
                }
            }
        }
        if !x.expansions().entries().is_empty() && next != len {
            return Err(format!("nested entries account for {next} instructions but the parent range has {len}"));
        }
        Ok(())
    }
    for entry in map.entries() {
        if let ExpansionResult::Rewritten(x) = entry.target_location() {
            check(x, 0, unmodified_too, &body_kinds)?;
        }
    }
    Ok(())
}

/// C05 (expressions): each line is an unsigned integer literal (decimal, 0x, 0o, 0b); as an expression it must be the
/// number with that value (rounded to the nearest f64), or be rejected
fn expr_literal(text: &str) -> Result<(), String> {
    use quil_rs::expression::Expression;
    for line in text.lines().map(str::trim).filter(|l| !l.is_empty()) {
        let digits = line.replace('_', "");
        let want: Option<u128> = if let Some(h) = digits.strip_prefix("0x") {
            u128::from_str_radix(h, 16).ok()
        } else if let Some(o) = digits.strip_prefix("0o") {
            u128::from_str_radix(o, 8).ok()
        } else if let Some(b) = digits.strip_prefix("0b") {
            u128::from_str_radix(b, 2).ok()
        } else {
            digits.parse::<u128>().ok()
        };
        match (Expression::from_str(line), want) {
            (Ok(Expression::Number(c)), Some(v)) => {
                println!("{line}  =>  {c}");
                if c.re != v as f64 || c.im != 0.0 {
                    return Err(format!("`{line}`: the literal {v} became the number {c}"));
                }
            }
            (Ok(other), _) => println!("{line}  =>  {other:?}"),
            (Err(_), _) => println!("{line}  =>  rejected"),
        }
    }
    Ok(())
}

/// C33: first line `n=<iterations> counter=<name>[<index>]`, then a program; the wrapped program, run with the
/// documented meaning of MOVE / SUB / JUMP-WHEN, must execute every body instruction exactly n times and stop
fn loop_runs(text: &str) -> Result<(), String> {
    use quil_rs::instruction::{ArithmeticOperand, ArithmeticOperator, MemoryReference, Target};
    use std::collections::HashMap;
    let (head, rest) = text.split_once('\n').ok_or("missing header line")?;
    let mut n = 2u32;
    let mut counter = MemoryReference { name: "loop_counter".to_string(), index: 0 };
    for part in head.split_whitespace() {
        if let Some(v) = part.strip_prefix("n=") {
            n = v.parse().map_err(|e| format!("bad n: {e}"))?;
        } else if let Some(v) = part.strip_prefix("counter=") {
            counter = MemoryReference::from_str(v).map_err(|e| format!("bad counter: {e}"))?;
        }
    }
    let program = Program::from_str(rest).map_err(|e| format!("input does not parse: {e}"))?;
    let body: Vec<Instruction> = program.body_instructions().cloned().collect();
    let wrapped = program.wrap_in_loop(counter.clone(), Target::Fixed("loop_start".to_string()), n);
    let listing: Vec<Instruction> = wrapped.body_instructions().cloned().collect();
    println!("{}", quil_rs::quil::Quil::to_quil_or_debug(&wrapped));
    let mut memory: HashMap<(String, u64), i64> = HashMap::new();
    let mut executed: Vec<Instruction> = vec![];
    let (mut pc, mut steps) = (0usize, 0usize);
    while pc < listing.len() {
        steps += 1;
        if steps > 3_000_000 {
            return Err(format!("the wrapped program did not stop within 3000000 steps (n = {n}, counter {}[{}])", counter.name, counter.index));
        }
        match &listing[pc] {
            Instruction::Move(m) => {
                if let ArithmeticOperand::LiteralInteger(v) = m.source {
                    memory.insert((m.destination.name.clone(), m.destination.index), v);
                }
            }
            Instruction::Arithmetic(a) if a.operator == ArithmeticOperator::Subtract => {
                if let ArithmeticOperand::LiteralInteger(v) = a.source {
                    *memory.entry((a.destination.name.clone(), a.destination.index)).or_insert(0) -= v;
                }
            }
            Instruction::JumpWhen(j) => {
                if memory.get(&(j.condition.name.clone(), j.condition.index)).copied().unwrap_or(0) != 0 {
                    pc = listing
                        .iter()
                        .position(|i| matches!(i, Instruction::Label(l) if l.target == j.target))
                        .ok_or("jump to an undefined label")?;
                    continue;
                }
            }
            Instruction::Label(_) => {}
            other => executed.push(other.clone()),
        }
        pc += 1;
    }
    let expected: Vec<Instruction> = if n == 0 { vec![] } else { (0..n).flat_map(|_| body.iter().cloned()).collect() };
    if executed != expected {
        return Err(format!("the body has {} instructions and n = {n}, but {} body instructions were executed", body.len(), executed.len()));
    }
    Ok(())
}

/// C13: each line is an expression over %x and %y; with x = -4+0i and y = -4-0i (equal as numbers, different in the
/// sign of the zero imaginary part) substituting and then evaluating must agree with evaluating with the bindings
fn subst_signed_zero(text: &str) -> Result<(), String> {
    use num_complex::Complex64;
    use quil_rs::expression::Expression;
    use std::collections::HashMap;
    let x = Complex64::new(-4.0, 0.0);
    let y = Complex64::new(-4.0, -0.0);
    for line in text.lines().map(str::trim).filter(|l| !l.is_empty()) {
        let e = Expression::from_str(line).map_err(|e| format!("`{line}` does not parse: {e}"))?;
        let bindings: HashMap<String, Complex64> = HashMap::from([("x".to_string(), x), ("y".to_string(), y)]);
        let values: HashMap<String, Expression> =
            HashMap::from([("x".to_string(), Expression::Number(x)), ("y".to_string(), Expression::Number(y))]);
        let memory: HashMap<&str, Vec<f64>> = HashMap::new();
        let direct = e.evaluate(&bindings, &memory).map_err(|e| format!("{e:?}"))?;
        let substituted = e.substitute_variables(&values);
        let after = substituted.evaluate(&HashMap::<String, Complex64>::new(), &memory).map_err(|e| format!("{e:?}"))?;
        println!("{line}: with bindings {direct}, after substitution {after}");
        if (direct - after).norm() > 1e-9 {
            return Err(format!(
                "`{line}` with x = -4+0i, y = -4-0i evaluates to {direct} with the bindings but to {after} after substituting them"
            ));
        }
    }
    Ok(())
}

/// C16 (measurements): for every MEASURE in the body, the calibration found is the last definition with an exact
/// fixed-qubit match, else the last one with a variable qubit, among those with the same name and record/effect kind
fn measure_match(text: &str) -> Result<(), String> {
    use quil_rs::instruction::Qubit;
    let program = Program::from_str(text).map_err(|e| format!("input does not parse: {e}"))?;
    definition_order(text, &program)?;
    let definitions: Vec<_> = program.calibrations.iter_measure_calibrations().collect();
    for instruction in program.body_instructions() {
        let Instruction::Measurement(m) = instruction else { continue };
        let (mut exact, mut wildcard) = (None, None);
        for d in &definitions {
            let id = &d.identifier;
            if id.name != m.name || id.target.is_some() != m.target.is_some() {
                continue;
            }
            match &id.qubit {
                q @ Qubit::Fixed(_) if *q == m.qubit => exact = Some(*d),
                Qubit::Variable(_) => wildcard = Some(*d),
                _ => {}
            }
        }
        let expected = exact.or(wildcard);
        let found = program.calibrations.get_match_for_measurement(m);
        let show = |d: Option<&quil_rs::instruction::MeasureCalibrationDefinition>| {
            d.map(|d| quil_rs::quil::Quil::to_quil_or_debug(d).replace('\n', " | ")).unwrap_or_else(|| "none".to_string())
        };
        println!("{}: {}", quil_rs::quil::Quil::to_quil_or_debug(instruction), show(found));
        if found != expected {
            return Err(format!(
                "`{}` is matched with [{}] but the rules give [{}]",
                quil_rs::quil::Quil::to_quil_or_debug(instruction),
                show(found),
                show(expected)
            ));
        }
    }
    Ok(())
}

/// C23 / C24: conflicting instructions of a block are ordered in its dependency graph, and every memory / frame edge
/// between two instructions links a conflicting pair (the oracle recomputes the conflicts from the default handler's
/// answers for each instruction on its own)
fn dependency_order(text: &str, frames: bool) -> Result<(), String> {
    use quil_rs::instruction::{DefaultHandler, ExternSignatureMap, InstructionHandler, InstructionRole};
    use quil_rs::program::scheduling::{ExecutionDependency, ScheduledGraphNode, ScheduledProgram};
    use std::collections::HashSet;
    let program = Program::from_str(text).map_err(|e| format!("input does not parse: {e}"))?;
    let scheduled = match ScheduledProgram::from_program(&program, &DefaultHandler) {
        Ok(s) => s,
        Err(e) => {
            println!("does not schedule: {e:?}");
            return Ok(());
        }
    };
    let externs = ExternSignatureMap::try_from(program.extern_pragma_map.clone()).map_err(|_| "extern map".to_string())?;
    for (bk, block) in scheduled.basic_blocks().iter().enumerate() {
        let graph = block.get_dependency_graph();
        let n = block.instructions().len();
        let reach = |from: usize, to: usize, want: &dyn Fn(&ExecutionDependency) -> bool| -> bool {
            let mut seen = HashSet::new();
            let mut stack = vec![ScheduledGraphNode::InstructionIndex(from)];
            while let Some(node) = stack.pop() {
                if node == ScheduledGraphNode::InstructionIndex(to) {
                    return true;
                }
                if !seen.insert(node) {
                    continue;
                }
                for (s, t, w) in graph.all_edges() {
                    if s == node && w.iter().any(|d| want(d)) {
                        stack.push(t);
                    }
                }
            }
            false
        };
        if frames {
            let info: Vec<Option<(HashSet<String>, HashSet<String>, bool)>> = block
                .instructions()
                .iter()
                .map(|i| {
                    if DefaultHandler.role(i) != InstructionRole::RFControl {
                        return None;
                    }
                    let show = |f: &quil_rs::instruction::FrameIdentifier| quil_rs::quil::Quil::to_quil_or_debug(f);
                    DefaultHandler.matching_frames(&program, i).map(|m| {
                        (
                            m.used.iter().map(|f| show(f)).collect(),
                            m.blocked.iter().map(|f| show(f)).collect(),
                            DefaultHandler.is_scheduled(i),
                        )
                    })
                })
                .collect();
            let conflict = |a: usize, b: usize| -> bool {
                match (&info[a], &info[b]) {
                    (Some((ua, ba, _)), Some((ub, bb, _))) => {
                        ua.iter().any(|f| ub.contains(f) || bb.contains(f)) || ub.iter().any(|f| ua.contains(f) || ba.contains(f))
                    }
                    _ => false,
                }
            };
            for j in 0..n {
                for i in 0..j {
                    if conflict(i, j) {
                        if !reach(i, j, &|d| *d == ExecutionDependency::StableOrdering) {
                            return Err(format!("block {bk}: instruction {j} uses or blocks a frame that instruction {i} uses (or the reverse) but does not depend on it through ordering edges"));
                        }
                        let timed = info[i].as_ref().unwrap().2 && info[j].as_ref().unwrap().2;
                        if timed && !reach(i, j, &|d| *d == ExecutionDependency::Scheduled) {
                            return Err(format!("block {bk}: timed instruction {j} conflicts with timed instruction {i} but does not depend on it through timed edges"));
                        }
                    }
                }
            }
            for (s, t, w) in graph.all_edges() {
                if let (ScheduledGraphNode::InstructionIndex(a), ScheduledGraphNode::InstructionIndex(b)) = (s, t) {
                    let frame_edge = w.iter().any(|d| matches!(d, ExecutionDependency::StableOrdering | ExecutionDependency::Scheduled));
                    if frame_edge && !(a < b && conflict(a, b)) {
                        return Err(format!("block {bk}: frame edge {a} -> {b} does not connect a conflicting pair in program order"));
                    }
                }
            }
        } else {
            let mut acc = vec![];
            for i in block.instructions().iter() {
                let m = DefaultHandler.memory_accesses(&externs, i).map_err(|e| format!("memory accesses: {e:?}"))?;
                let mut w: HashSet<String> = m.writes.clone();
                w.extend(m.captures.iter().cloned());
                let mut all = w.clone();
                all.extend(m.reads.iter().cloned());
                acc.push((w, all));
            }
            let conflict = |a: usize, b: usize| -> bool {
                acc[a].0.iter().any(|r| acc[b].1.contains(r)) || acc[b].0.iter().any(|r| acc[a].1.contains(r))
            };
            for j in 0..n {
                for i in 0..j {
                    if conflict(i, j) && !reach(i, j, &|_| true) {
                        return Err(format!("block {bk}: instructions {i} and {j} touch the same region, one of them writing, but {j} does not depend on {i}"));
                    }
                }
            }
            for (s, t, w) in graph.all_edges() {
                if let (ScheduledGraphNode::InstructionIndex(a), ScheduledGraphNode::InstructionIndex(b)) = (s, t) {
                    let memory_edge = w.iter().any(|d| matches!(d, ExecutionDependency::AwaitMemoryAccess(_)));
                    if memory_edge && !(a < b && conflict(a, b)) {
                        return Err(format!("block {bk}: memory edge {a} -> {b} does not connect a conflicting pair in program order"));
                    }
                }
            }
        }
        println!("block {bk}: {n} instructions, {} edges checked", graph.edge_count());
    }
    Ok(())
}

/// C11: `a + b` and `a += b` append the bodies and merge the definitions, those of `b` winning (two programs
/// separated by a line `=====`)
fn concat(text: &str) -> Result<(), String> {
    let (a, b) = text.split_once("\n=====\n").ok_or("two programs separated by ===== expected")?;
    let pa = Program::from_str(a).map_err(|e| format!("first program does not parse: {e}"))?;
    let pb = Program::from_str(b).map_err(|e| format!("second program does not parse: {e}"))?;
    let mut assigned = pa.clone();
    assigned += pb.clone();
    let sum = pa.clone() + pb.clone();
    for (what, s) in [("a + b", &sum), ("a += b", &assigned)] {
        let body: Vec<Instruction> = s.body_instructions().cloned().collect();
        let want: Vec<Instruction> = pa.body_instructions().chain(pb.body_instructions()).cloned().collect();
        if body != want {
            return Err(format!("{what}: the body is not a's body followed by b's"));
        }
        for (id, attrs) in pb.frames.iter() {
            if s.frames.get(id) != Some(attrs) {
                return Err(format!("{what}: frame {} does not have b's definition", quil_rs::quil::Quil::to_quil_or_debug(id)));
            }
        }
        for (id, attrs) in pa.frames.iter() {
            if pb.frames.get(id).is_none() && s.frames.get(id) != Some(attrs) {
                return Err(format!("{what}: frame {} defined only in a is not kept", quil_rs::quil::Quil::to_quil_or_debug(id)));
            }
        }
        if s.frames.len() != pa.frames.iter().filter(|(id, _)| pb.frames.get(id).is_none()).count() + pb.frames.len() {
            return Err(format!("{what}: frames other than those of a and b"));
        }
        for (name, region) in pb.memory_regions.iter() {
            if s.memory_regions.get(name) != Some(region) {
                return Err(format!("{what}: region {name} does not have b's declaration"));
            }
        }
        for (name, region) in pa.memory_regions.iter() {
            if pb.memory_regions.get(name).is_none() && s.memory_regions.get(name) != Some(region) {
                return Err(format!("{what}: region {name} declared only in a is not kept"));
            }
        }
        for (name, w) in pb.waveforms.iter() {
            if s.waveforms.get(name) != Some(w) {
                return Err(format!("{what}: waveform {name} does not have b's definition"));
            }
        }
        for (name, g) in pb.gate_definitions.iter() {
            if s.gate_definitions.get(name) != Some(g) {
                return Err(format!("{what}: gate {name} does not have b's definition"));
            }
        }
        for (name, g) in pa.gate_definitions.iter() {
            if pb.gate_definitions.get(name).is_none() && s.gate_definitions.get(name) != Some(g) {
                return Err(format!("{what}: gate {name} defined only in a is not kept"));
            }
        }
        // calibrations: b's win, a's others are kept
        for c in pb.calibrations.iter_calibrations() {
            if !s.calibrations.iter_calibrations().any(|x| x == c) {
                return Err(format!("{what}: a DEFCAL of b is missing from the sum"));
            }
        }
        for c in pa.calibrations.iter_calibrations() {
            let replaced = pb.calibrations.iter_calibrations().any(|x| x.identifier == c.identifier);
            if !replaced && !s.calibrations.iter_calibrations().any(|x| x == c) {
                return Err(format!("{what}: a DEFCAL defined only in a is not kept"));
            }
        }
        for c in pb.calibrations.iter_measure_calibrations() {
            if !s.calibrations.iter_measure_calibrations().any(|x| x == c) {
                return Err(format!("{what}: a DEFCAL MEASURE of b is missing from the sum"));
            }
        }
        // order within each keyed definition kind: a's keys in a's order, then b's new keys in b's order
        let order = |a: Vec<String>, b: Vec<String>| -> Vec<String> {
            let mut v = a.clone();
            for k in b {
                if !v.contains(&k) {
                    v.push(k);
                }
            }
            v
        };
        let gate_order: Vec<String> = s.gate_definitions.keys().cloned().collect();
        if gate_order != order(pa.gate_definitions.keys().cloned().collect(), pb.gate_definitions.keys().cloned().collect()) {
            return Err(format!("{what}: gate definitions are in the order {gate_order:?}: not a's first, then b's new ones"));
        }
        let region_order: Vec<String> = s.memory_regions.keys().cloned().collect();
        if region_order != order(pa.memory_regions.keys().cloned().collect(), pb.memory_regions.keys().cloned().collect()) {
            return Err(format!("{what}: declarations are in the order {region_order:?}: not a's first, then b's new ones"));
        }
        let wave_order: Vec<String> = s.waveforms.keys().cloned().collect();
        if wave_order != order(pa.waveforms.keys().cloned().collect(), pb.waveforms.keys().cloned().collect()) {
            return Err(format!("{what}: waveforms are in the order {wave_order:?}: not a's first, then b's new ones"));
        }
        let used: std::collections::HashSet<_> = pa.get_used_qubits().union(pb.get_used_qubits()).cloned().collect();
        // (when b redefines a calibration of a, the qubits of the replaced body are no longer mentioned: C10 governs)
        if !s.get_used_qubits().is_subset(&used) {
            return Err(format!("{what}: used qubits outside the union"));
        }
        println!("{what}: {} body instructions, {} frames, {} regions", body.len(), s.frames.len(), s.memory_regions.len());
    }
    let empty = Program::new();
    if pa.clone() + empty.clone() != pa || empty + pa.clone() != pa {
        return Err("concatenation with an empty program is not an identity".to_string());
    }
    Ok(())
}

/// C13: each line is an expression over variables %x %y %z %w and memory m[0], m[1], n[0].  Substituting numbers
/// for the variables and evaluating gives the value of evaluating with the variables bound; the reported memory
/// references are the addresses occurring in the tree; evaluation succeeds iff every variable / cell is supplied
fn eval_subst(text: &str) -> Result<(), String> {
    use quil_rs::expression::Expression;
    use std::collections::{HashMap, HashSet};
    fn walk(e: &Expression, vars: &mut HashSet<String>, refs: &mut Vec<(String, u64)>) {
        match e {
            Expression::Address(m) => refs.push((m.name.clone(), m.index)),
            Expression::FunctionCall(f) => walk(&f.expression, vars, refs),
            Expression::Infix(i) => {
                walk(&i.left, vars, refs);
                walk(&i.right, vars, refs);
            }
            Expression::Prefix(p) => walk(&p.expression, vars, refs),
            Expression::Variable(v) => {
                vars.insert(v.clone());
            }
            Expression::Number(_) | Expression::PiConstant() => {}
        }
    }
    // (no zeros among the values: interning identifies +0.0 and -0.0, the known finding C13.eq.number)
    let values = [("x", (1.3, 0.2)), ("y", (2.1, -0.4)), ("z", (-0.7, 0.35)), ("w", (0.45, 1.1))];
    let same = |a: num_complex::Complex64, b: num_complex::Complex64| (a.re == b.re || (a.re.is_nan() && b.re.is_nan())) && (a.im == b.im || (a.im.is_nan() && b.im.is_nan()));
    for line in text.lines().filter(|l| !l.trim().is_empty()) {
        let e = Expression::from_str(line).map_err(|e| format!("`{line}` does not parse: {e}"))?;
        let mut used = HashSet::new();
        let mut addresses = vec![];
        walk(&e, &mut used, &mut addresses);
        let reported: HashSet<(String, u64)> = e.memory_references().map(|m| (m.name.clone(), m.index)).collect();
        let occurring: HashSet<(String, u64)> = addresses.iter().cloned().collect();
        if reported != occurring {
            return Err(format!("`{line}`: reports memory references {reported:?} but {occurring:?} occur in it"));
        }
        let vars: HashMap<String, num_complex::Complex64> =
            values.iter().map(|(n, (re, im))| (n.to_string(), num_complex::Complex64::new(*re, *im))).collect();
        let mem: HashMap<&str, Vec<f64>> = HashMap::from([("m", vec![0.75, -1.25]), ("n", vec![2.5])]);
        let bound = e.evaluate(&vars, &mem);
        let as_numbers: HashMap<String, Expression> = vars.iter().map(|(k, v)| (k.clone(), Expression::Number(*v))).collect();
        let nothing: HashMap<String, num_complex::Complex64> = HashMap::new();
        let substituted = e.substitute_variables(&as_numbers).evaluate(&nothing, &mem);
        println!("{line}: bound {bound:?}, substituted {substituted:?}");
        match (&bound, &substituted) {
            (Ok(a), Ok(b)) if same(*a, *b) => {}
            (Err(_), Err(_)) => {}
            _ => return Err(format!("`{line}`: {bound:?} with the variables bound, {substituted:?} after substituting them")),
        }
        let supplied = used.iter().all(|v| vars.contains_key(v))
            && occurring.iter().all(|(n, i)| mem.get(n.as_str()).map_or(false, |v| (*i as usize) < v.len()));
        if supplied != bound.is_ok() {
            return Err(format!("`{line}`: everything supplied = {supplied} but evaluation gave {bound:?}"));
        }
        // leave one used variable / one referenced region out: evaluation must fail
        for v in &used {
            let mut fewer = vars.clone();
            fewer.remove(v);
            if e.evaluate(&fewer, &mem).is_ok() {
                return Err(format!("`{line}`: evaluates although variable {v} is not supplied"));
            }
        }
        for (n, _) in &occurring {
            let mut fewer = mem.clone();
            fewer.remove(n.as_str());
            if e.evaluate(&vars, &fewer).is_ok() {
                return Err(format!("`{line}`: evaluates although region {n} is not supplied"));
            }
        }
    }
    Ok(())
}

/// C30: a program type-checks iff each of its body instructions type-checks against the declarations on its own;
/// a first line `# expect ok` / `# expect error` also pins the verdict
fn type_check_oracle(text: &str) -> Result<(), String> {
    use quil_rs::program::type_check::type_check;
    let program = Program::from_str(text).map_err(|e| format!("input does not parse: {e}"))?;
    let whole = type_check(&program).is_ok();
    let mut each = true;
    for (k, i) in program.body_instructions().enumerate() {
        let mut single = program.clone_without_body_instructions();
        single.add_instruction(i.clone());
        let ok = type_check(&single).is_ok();
        println!("instruction {k} ({}) on its own: {}", quil_rs::quil::Quil::to_quil_or_debug(i), if ok { "ok" } else { "error" });
        each &= ok;
    }
    println!("whole program: {}", if whole { "ok" } else { "error" });
    if whole != each {
        return Err(format!("the program type-checks: {whole}; every instruction on its own: {each}"));
    }
    // the verdict does not depend on the order of the body or on duplicates
    let mut reversed = program.clone_without_body_instructions();
    for i in program.body_instructions().collect::<Vec<_>>().into_iter().rev() {
        reversed.add_instruction(i.clone());
        reversed.add_instruction(i.clone());
    }
    if type_check(&reversed).is_ok() != whole {
        return Err("the verdict changes when the body is reversed and every instruction duplicated".to_string());
    }
    if let Some(first) = text.lines().next() {
        if first.trim() == "# expect ok" && !whole {
            return Err(format!("expected to type-check: {:?}", type_check(&program)));
        }
        if first.trim() == "# expect error" && whole {
            return Err("expected a type error".to_string());
        }
    }
    Ok(())
}

/// C27: for every body instruction with a fixed meaning (classical instructions, control flow, frame mutations,
/// pulses, captures, measurements) the default handler reports as read the regions it consults, as written the
/// regions it assigns, as captured the regions that receive readout results
fn memory_accesses(text: &str) -> Result<(), String> {
    use quil_rs::expression::Expression;
    use quil_rs::instruction::{ArithmeticOperand, BinaryOperand, ComparisonOperand, DefaultHandler, ExternSignatureMap, InstructionHandler, MemoryReference};
    use std::collections::HashSet;
    let program = Program::from_str(text).map_err(|e| format!("input does not parse: {e}"))?;
    let externs = ExternSignatureMap::try_from(program.extern_pragma_map.clone()).map_err(|_| "extern map".to_string())?;
    type S = HashSet<String>;
    let one = |m: &MemoryReference| -> S { HashSet::from([m.name.clone()]) };
    let arith = |o: &ArithmeticOperand| -> S { if let ArithmeticOperand::MemoryReference(m) = o { HashSet::from([m.name.clone()]) } else { HashSet::new() } };
    let expr = |e: &Expression| -> S { e.memory_references().map(|m| m.name.clone()).collect() };
    let wave = |w: &quil_rs::instruction::WaveformInvocation| -> S { w.parameters.values().flat_map(|e| e.memory_references().map(|m| m.name.clone())).collect() };
    let u = |a: S, b: S| -> S { a.union(&b).cloned().collect() };
    let none = || -> S { HashSet::new() };
    for (k, i) in program.body_instructions().enumerate() {
        let expected: Option<(S, S, S)> = match i {
            Instruction::Convert(c) => Some((one(&c.source), one(&c.destination), none())),
            Instruction::Move(m) => Some((arith(&m.source), one(&m.destination), none())),
            Instruction::BinaryLogic(b) => Some((
                u(one(&b.destination), if let BinaryOperand::MemoryReference(m) = &b.source { one(m) } else { none() }),
                one(&b.destination),
                none(),
            )),
            Instruction::Arithmetic(a) => Some((u(one(&a.destination), arith(&a.source)), one(&a.destination), none())),
            Instruction::UnaryLogic(x) => Some((one(&x.operand), one(&x.operand), none())),
            Instruction::Exchange(x) => Some((u(one(&x.left), one(&x.right)), u(one(&x.left), one(&x.right)), none())),
            Instruction::JumpWhen(j) => Some((one(&j.condition), none(), none())),
            Instruction::JumpUnless(j) => Some((one(&j.condition), none(), none())),
            Instruction::Comparison(c) => Some((
                u(one(&c.lhs), if let ComparisonOperand::MemoryReference(m) = &c.rhs { one(m) } else { none() }),
                one(&c.destination),
                none(),
            )),
            Instruction::Delay(d) => Some((expr(&d.duration), none(), none())),
            Instruction::SetPhase(x) => Some((expr(&x.phase), none(), none())),
            Instruction::SetScale(x) => Some((expr(&x.scale), none(), none())),
            Instruction::ShiftPhase(x) => Some((expr(&x.phase), none(), none())),
            Instruction::SetFrequency(x) => Some((expr(&x.frequency), none(), none())),
            Instruction::ShiftFrequency(x) => Some((expr(&x.frequency), none(), none())),
            Instruction::Pulse(p) => Some((wave(&p.waveform), none(), none())),
            Instruction::Capture(c) => Some((wave(&c.waveform), none(), one(&c.memory_reference))),
            Instruction::RawCapture(c) => Some((expr(&c.duration), none(), one(&c.memory_reference))),
            Instruction::Measurement(m) => Some((none(), none(), m.target.as_ref().map(|t| one(t)).unwrap_or_default())),
            Instruction::Load(l) => Some((HashSet::from([l.source.clone(), l.offset.name.clone()]), one(&l.destination), none())),
            Instruction::Store(x) => Some((u(one(&x.offset), arith(&x.source)), HashSet::from([x.destination.clone()]), none())),
            Instruction::Fence(_) | Instruction::Halt() | Instruction::Wait() | Instruction::Jump(_) | Instruction::Label(_)
            | Instruction::Nop() | Instruction::Pragma(_) | Instruction::Reset(_) | Instruction::SwapPhases(_) => Some((none(), none(), none())),
            _ => None,
        };
        let Some((reads, writes, captures)) = expected else { continue };
        let got = DefaultHandler.memory_accesses(&externs, i).map_err(|e| format!("instruction {k}: {e:?}"))?;
        let shown = quil_rs::quil::Quil::to_quil_or_debug(i);
        println!("{k}: {shown}: reads {:?} writes {:?} captures {:?}", got.reads, got.writes, got.captures);
        if got.reads != reads || got.writes != writes || got.captures != captures {
            return Err(format!(
                "`{shown}` reports reads {:?} writes {:?} captures {:?}; its meaning gives reads {reads:?} writes {writes:?} captures {captures:?}",
                got.reads, got.writes, got.captures
            ));
        }
    }
    Ok(())
}

/// C16 (gates): a gate matches only calibrations with its name, modifiers, parameter and qubit counts whose fixed
/// qubits and non-variable parameters equal its own; most fixed qubits wins, ties go to the later definition
fn gate_match(text: &str) -> Result<(), String> {
    use quil_rs::expression::Expression;
    use quil_rs::instruction::Qubit;
    let program = Program::from_str(text).map_err(|e| format!("input does not parse: {e}"))?;
    definition_order(text, &program)?;
    let definitions: Vec<_> = program.calibrations.iter_calibrations().collect();
    for instruction in program.body_instructions() {
        let Instruction::Gate(g) = instruction else { continue };
        let mut best: Option<(usize, &quil_rs::instruction::CalibrationDefinition)> = None;
        for d in &definitions {
            let id = &d.identifier;
            if id.name != g.name || id.modifiers != g.modifiers || id.parameters.len() != g.parameters.len() || id.qubits.len() != g.qubits.len() {
                continue;
            }
            let qubits_fit = id.qubits.iter().zip(g.qubits.iter()).all(|(c, q)| match c {
                Qubit::Fixed(_) => c == q,
                Qubit::Variable(_) => true,
                Qubit::Placeholder(_) => c == q,
            });
            let parameters_fit = id.parameters.iter().zip(g.parameters.iter()).all(|(c, p)| match c {
                Expression::Variable(_) => true,
                _ => c.clone().into_simplified() == p.clone().into_simplified(),
            });
            if !(qubits_fit && parameters_fit) {
                continue;
            }
            let fixed = id.qubits.iter().filter(|q| matches!(q, Qubit::Fixed(_))).count();
            if best.map_or(true, |(n, _)| fixed >= n) {
                best = Some((fixed, *d));
            }
        }
        let expected = best.map(|(_, d)| d);
        let found = program.calibrations.get_match_for_gate(g);
        let show = |d: Option<&quil_rs::instruction::CalibrationDefinition>| {
            d.map(|d| quil_rs::quil::Quil::to_quil_or_debug(d).replace('\n', " | ")).unwrap_or_else(|| "none".to_string())
        };
        println!("{}: {}", quil_rs::quil::Quil::to_quil_or_debug(instruction), show(found));
        if found != expected {
            return Err(format!(
                "`{}` is matched with [{}] but the rules give [{}]",
                quil_rs::quil::Quil::to_quil_or_debug(instruction),
                show(found),
                show(expected)
            ));
        }
    }
    Ok(())
}

/// C31 / C27 (CALL): a CALL resolves iff its argument count matches and each argument fits its slot; the return
/// slot and every region passed to a mutable parameter are written and every passed region is read
fn call_resolve(text: &str) -> Result<(), String> {
    use quil_rs::instruction::{DefaultHandler, ExternParameterType, ExternSignatureMap, InstructionHandler, UnresolvedCallArgument};
    use std::collections::HashSet;
    let program = Program::from_str(text).map_err(|e| format!("input does not parse: {e}"))?;
    let externs = ExternSignatureMap::try_from(program.extern_pragma_map.clone()).map_err(|(p, e)| format!("extern {p:?}: {e:?}"))?;
    let regions = &program.memory_regions;
    for instruction in program.body_instructions() {
        let Instruction::Call(call) = instruction else { continue };
        let shown = quil_rs::quil::Quil::to_quil_or_debug(instruction);
        let resolved = call.resolve_arguments(regions, &externs);
        let Some((_, signature)) = externs.iter().find(|(name, _)| **name == call.name) else {
            if resolved.is_ok() {
                return Err(format!("`{shown}` resolves although no extern of that name is declared"));
            }
            continue;
        };
        let type_of = |name: &str| regions.get(name).map(|r| r.size.clone());
        let returns = signature.return_type().is_some();
        let expected_count = signature.parameters().len() + usize::from(returns);
        let mut fits = call.arguments().len() == expected_count;
        let (mut reads, mut writes): (HashSet<String>, HashSet<String>) = (HashSet::new(), HashSet::new());
        for (i, argument) in call.arguments().iter().enumerate() {
            let passed = match argument {
                UnresolvedCallArgument::Identifier(n) => Some(n.clone()),
                UnresolvedCallArgument::MemoryReference(m) => Some(m.name.clone()),
                UnresolvedCallArgument::Immediate(_) => None,
            };
            if i == 0 && returns {
                let t = signature.return_type().unwrap();
                fits &= passed.as_deref().and_then(type_of).map_or(false, |v| v.data_type == *t);
                if let Some(n) = passed {
                    reads.insert(n.clone());
                    writes.insert(n);
                }
                continue;
            }
            let Some(parameter) = signature.parameters().get(i - usize::from(returns)) else { continue };
            fits &= match (parameter.data_type(), argument) {
                (ExternParameterType::Scalar(t), UnresolvedCallArgument::Immediate(_)) => { let _ = t; !parameter.mutable() }
                (ExternParameterType::Scalar(t), _) => passed.as_deref().and_then(type_of).map_or(false, |v| v.data_type == *t),
                (ExternParameterType::FixedLengthVector(v), UnresolvedCallArgument::Identifier(n)) => type_of(n).map_or(false, |r| r == *v),
                (ExternParameterType::VariableLengthVector(t), UnresolvedCallArgument::Identifier(n)) => type_of(n).map_or(false, |r| r.data_type == *t),
                _ => false,
            };
            if let Some(n) = passed {
                reads.insert(n.clone());
                if parameter.mutable() {
                    writes.insert(n);
                }
            }
        }
        println!("{shown}: resolves {}, the rules say {fits}", resolved.is_ok());
        if resolved.is_ok() != fits {
            return Err(format!("`{shown}` resolves: {} ({:?}), but by the rules it should: {fits}", resolved.is_ok(), resolved.as_ref().err()));
        }
        if fits {
            let got = DefaultHandler.memory_accesses(&externs, instruction).map_err(|e| format!("memory accesses of `{shown}`: {e:?}"))?;
            if got.reads != reads || got.writes != writes || !got.captures.is_empty() {
                return Err(format!("`{shown}` reports reads {:?} writes {:?} captures {:?}; the rules give reads {reads:?} writes {writes:?}", got.reads, got.writes, got.captures));
            }
        }
    }
    Ok(())
}

/// C31 (first sentence): every valid extern signature prints to text that parses back to the same signature
fn extern_roundtrip(text: &str) -> Result<(), String> {
    use quil_rs::instruction::{ExternSignature, ExternSignatureMap};
    use quil_rs::quil::Quil;
    let program = Program::from_str(text).map_err(|e| format!("input does not parse: {e}"))?;
    let externs = ExternSignatureMap::try_from(program.extern_pragma_map.clone()).map_err(|(p, e)| format!("extern {p:?}: {e:?}"))?;
    for (name, signature) in externs.iter() {
        let printed = signature.to_quil().map_err(|e| format!("signature of {name} does not print: {e}"))?;
        let back = ExternSignature::from_str(&printed).map_err(|e| format!("signature of {name} prints as `{printed}`, which does not parse: {e:?}"))?;
        println!("{name}: {printed}");
        if back != *signature {
            return Err(format!("signature of {name} prints as `{printed}`, which parses to a different signature"));
        }
    }
    Ok(())
}

/// C05 (reals): each line is a decimal real literal; as an operand (`MOVE r <literal>`) and as an expression it must
/// be the nearest f64 to its mathematical value (Rust's own `str::parse::<f64>` is correctly rounded), or be rejected
fn real_literal(text: &str) -> Result<(), String> {
    use quil_rs::expression::Expression;
    use quil_rs::instruction::{ArithmeticOperand, Move};
    for line in text.lines().map(str::trim).filter(|l| !l.is_empty()) {
        let Ok(want) = line.parse::<f64>() else { continue };
        if let Ok(p) = Program::from_str(&format!("MOVE r {line}")) {
            if let Some(Instruction::Move(Move { source: ArithmeticOperand::LiteralReal(v), .. })) = p.body_instructions().next() {
                if v.to_bits() != want.to_bits() {
                    return Err(format!("operand `{line}` became {v:e}, the nearest f64 is {want:e}"));
                }
            }
        }
        if let Ok(Expression::Number(c)) = Expression::from_str(line) {
            if c.re.to_bits() != want.to_bits() || c.im != 0.0 {
                return Err(format!("expression `{line}` became {c}, the nearest f64 is {want:e}"));
            }
        }
        println!("{line} ok");
    }
    Ok(())
}
