//! Hunt for property violations (C08, C09, C10, C11, C19, C33). Public API only.
#![allow(clippy::all)]

use std::collections::HashSet;
use std::str::FromStr;

use quil_rs::instruction::{
    CalibrationDefinition, CalibrationIdentifier, Declaration, DefaultHandler, Gate, Instruction,
    MemoryReference, Qubit, QubitPlaceholder, ScalarType, Target, TargetPlaceholder, Vector,
};
use quil_rs::program::{
    CalibrationExpansion, ExpansionResult, InstructionIndex, SourceMap, SourceMapEntry,
};
use quil_rs::quil::Quil;
use quil_rs::Program;

// ---------------------------------------------------------------- helpers

fn p(s: &str) -> Program {
    Program::from_str(s).unwrap_or_else(|e| panic!("parse failed: {e}\n{s}"))
}

fn content_qubits(program: &Program) -> HashSet<Qubit> {
    program
        .to_instructions()
        .iter()
        .flat_map(|i| i.get_qubits().into_iter().cloned())
        .collect()
}

fn rebuilt(program: &Program) -> Program {
    Program::from_instructions(program.to_instructions())
}

/// C10 check: used-qubit set = mentioned set, and equal to the program rebuilt from its listing.
fn check_c10(label: &str, program: &Program) {
    assert_eq!(
        program.get_used_qubits(),
        &content_qubits(program),
        "[{label}] used qubits differ from the qubits mentioned by the listing:\n{}",
        program.to_quil_or_debug()
    );
    let r = rebuilt(program);
    assert_eq!(r.to_instructions(), program.to_instructions(), "[{label}] listing differs");
    assert!(
        &r == program,
        "[{label}] program differs from the program rebuilt from its own listing"
    );
}

/// C09 check.
fn check_c09(label: &str, program: &Program) {
    let a = program.to_instructions();
    let b = program.clone().into_instructions();
    assert_eq!(a, b, "[{label}] to_instructions != into_instructions");
    let r = Program::from_instructions(a.clone());
    assert_eq!(r.to_instructions(), a, "[{label}] rebuilt listing differs");
    assert!(&r == program, "[{label}] rebuilt program != original");
    assert_eq!(
        r.to_quil().unwrap(),
        program.to_quil().unwrap(),
        "[{label}] serialization differs"
    );
}

const ALL_KINDS: &str = r#"
PRAGMA EXTERN foo "OCTET (a : INTEGER)"
DECLARE ro BIT[2]
DECLARE theta REAL[1]
DEFFRAME 0 "rf":
    HARDWARE-OBJECT: "hw"
    INITIAL-FREQUENCY: 1e9
DEFWAVEFORM wf:
    1, 2, 3
DEFWAVEFORM wf2:
    1, 2
DEFCAL X 0:
    PULSE 0 "rf" wf
DEFCAL RX(%t) q:
    SHIFT-PHASE q "rf" %t
DEFCAL MEASURE 0 addr:
    CAPTURE 0 "rf" wf addr
DEFCAL MEASURE q addr:
    NOP
DEFGATE G AS MATRIX:
    1, 0
    0, 1
DEFGATE P(%a) AS MATRIX:
    1, 0
    0, cos(%a)
DEFCIRCUIT BELL a b:
    H a
    CNOT a b
X 0
RX(theta[0]) 1
MEASURE 0 ro[0]
G 2
"#;

// ---------------------------------------------------------------- C08 / C09

#[test]
fn c08_c09_all_kinds_single_frame_deterministic() {
    let first = p(ALL_KINDS).to_quil().unwrap();
    for _ in 0..20 {
        assert_eq!(p(ALL_KINDS).to_quil().unwrap(), first);
    }
    check_c09("all kinds", &p(ALL_KINDS));
    // reparse of serialization
    let again = p(&first);
    assert_eq!(again.to_quil().unwrap(), first);
    assert!(again == p(ALL_KINDS));
}

#[test]
fn c08_redefinition_in_place_every_kind() {
    // Redefine each kind after a later definition of the same kind was added. The redefined key must keep
    // its first position.
    let prog = p(r#"
PRAGMA EXTERN foo "OCTET (a : INTEGER)"
PRAGMA EXTERN bar "OCTET (a : INTEGER)"
PRAGMA EXTERN foo "INTEGER (b : REAL)"
DECLARE a BIT
DECLARE b BIT
DECLARE a REAL[3]
DEFWAVEFORM w1:
    1, 2
DEFWAVEFORM w2:
    1, 2
DEFWAVEFORM w1:
    3, 4
DEFCAL X 0:
    NOP
DEFCAL Y 0:
    NOP
DEFCAL X 0:
    WAIT
DEFCAL MEASURE 0 addr:
    NOP
DEFCAL MEASURE 1 addr:
    NOP
DEFCAL MEASURE 0 addr:
    WAIT
DEFGATE G1 AS MATRIX:
    1, 0
    0, 1
DEFGATE G2 AS MATRIX:
    1, 0
    0, 1
DEFGATE G1 AS MATRIX:
    0, 1
    1, 0
DEFCIRCUIT C1 a:
    X a
DEFCIRCUIT C2 a:
    X a
DEFCIRCUIT C1 a:
    Y a
"#);
    let text = prog.to_quil().unwrap();
    let expected = r#"PRAGMA EXTERN foo "INTEGER (b : REAL)"
PRAGMA EXTERN bar "OCTET (a : INTEGER)"
DECLARE a REAL[3]
DECLARE b BIT[1]
DEFWAVEFORM w1:
    3, 4
DEFWAVEFORM w2:
    1, 2
DEFCAL X 0:
    WAIT
DEFCAL Y 0:
    NOP
DEFCAL MEASURE 0 addr:
	WAIT

DEFCAL MEASURE 1 addr:
	NOP

DEFGATE G1 AS MATRIX:
    0, 1
    1, 0

DEFGATE G2 AS MATRIX:
    1, 0
    0, 1

DEFCIRCUIT C1 a:
    Y a

DEFCIRCUIT C2 a:
    X a

"#;
    assert_eq!(text, expected);
    check_c09("redefinitions", &prog);
    check_c10("redefinitions", &prog);
}

#[test]
fn c09_extern_pragma_without_name_and_duplicates() {
    // PRAGMA EXTERN without identifier argument: key None
    let prog = p("PRAGMA EXTERN \"OCTET\"\nPRAGMA EXTERN foo \"OCTET\"\nPRAGMA EXTERN \"REAL\"\nPRAGMA OTHER x\nX 0\n");
    check_c09("extern none", &prog);
    let listing = prog.to_instructions();
    assert_eq!(listing.len(), 4, "{listing:?}");
}

#[test]
fn c09_body_order_and_interleaving() {
    let prog = p("X 0\nDECLARE a BIT\nY 0\nDEFCAL X 0:\n    NOP\nZ 0\nPRAGMA EXTERN foo \"OCTET\"\nPRAGMA A\nHALT\n");
    check_c09("interleaved", &prog);
    let body: Vec<String> = prog.body_instructions().map(|i| i.to_quil().unwrap()).collect();
    assert_eq!(body, vec!["X 0", "Y 0", "Z 0", "PRAGMA A", "HALT"]);
}

#[test]
fn c09_calibration_with_equivalent_but_unequal_params() {
    // RX(pi/2) vs RX(1.5707963267948966): distinct keys? They match the same gates. Either way the views must agree.
    let prog = p("DEFCAL RX(pi/2) 0:\n    NOP\nDEFCAL RX(1.5707963267948966) 0:\n    WAIT\nRX(pi/2) 0\n");
    check_c09("equiv params", &prog);
}

// ---------------------------------------------------------------- C10

#[test]
fn c10_build_and_add_all_kinds() {
    check_c10("all kinds", &p(ALL_KINDS));
}

#[test]
fn c10_replace_measure_calibration() {
    let mut prog = p("DEFCAL MEASURE 0 addr:\n    FENCE 7\n");
    prog.add_instruction(Instruction::from_str("DEFCAL MEASURE 0 addr:\n    FENCE 8\n").unwrap());
    check_c10("replace measure cal", &prog);
}

#[test]
fn c10_replace_calibration_via_add_instructions() {
    let mut prog = p("DEFCAL X 0:\n    FENCE 7\nX 0\n");
    prog.add_instructions(p("DEFCAL X 0:\n    FENCE 9\n").to_instructions());
    check_c10("replace cal", &prog);
}

#[test]
fn c10_resolve_placeholders_body() {
    let q0 = QubitPlaceholder::default();
    let q1 = QubitPlaceholder::default();
    let mut prog = Program::new();
    prog.add_instruction(Instruction::Gate(
        Gate::new("X", vec![], vec![Qubit::Placeholder(q0.clone())], vec![]).unwrap(),
    ));
    prog.add_instruction(Instruction::Gate(
        Gate::new(
            "CNOT",
            vec![],
            vec![Qubit::Placeholder(q0.clone()), Qubit::Placeholder(q1.clone())],
            vec![],
        )
        .unwrap(),
    ));
    prog.add_instruction(Instruction::Gate(
        Gate::new("X", vec![], vec![Qubit::Fixed(0)], vec![]).unwrap(),
    ));
    check_c10("before resolve", &prog);
    prog.resolve_placeholders();
    check_c10("after resolve", &prog);
    let expected: HashSet<Qubit> = [Qubit::Fixed(0), Qubit::Fixed(1), Qubit::Fixed(2)].into_iter().collect();
    assert_eq!(prog.get_used_qubits(), &expected);
}

#[test]
fn c10_resolve_placeholders_with_calibration_placeholder() {
    // A calibration mentioning a placeholder qubit; body uses the same placeholder.
    let q0 = QubitPlaceholder::default();
    let mut prog = Program::new();
    prog.add_instruction(Instruction::CalibrationDefinition(CalibrationDefinition {
        identifier: CalibrationIdentifier {
            modifiers: vec![],
            name: "X".into(),
            parameters: vec![],
            qubits: vec![Qubit::Placeholder(q0.clone())],
        },
        instructions: vec![Instruction::Nop()],
    }));
    prog.add_instruction(Instruction::Gate(
        Gate::new("X", vec![], vec![Qubit::Placeholder(q0.clone())], vec![]).unwrap(),
    ));
    prog.resolve_placeholders();
    check_c10("after resolve w/ cal placeholder", &prog);
}

#[test]
fn c10_resolve_placeholders_custom_partial() {
    let q0 = QubitPlaceholder::default();
    let q1 = QubitPlaceholder::default();
    let t0 = TargetPlaceholder::new("x".into());
    let mut prog = Program::new();
    prog.add_instruction(Instruction::Gate(
        Gate::new(
            "CNOT",
            vec![],
            vec![Qubit::Placeholder(q0.clone()), Qubit::Placeholder(q1.clone())],
            vec![],
        )
        .unwrap(),
    ));
    prog.add_instruction(Instruction::Label(quil_rs::instruction::Label {
        target: Target::Placeholder(t0),
    }));
    let q0c = q0.clone();
    prog.resolve_placeholders_with_custom_resolvers(
        Box::new(|_| None),
        Box::new(move |q| if *q == q0c { Some(5) } else { None }),
    );
    check_c10("partial resolve", &prog);
    assert!(prog.get_used_qubits().contains(&Qubit::Fixed(5)));
    assert!(prog.get_used_qubits().contains(&Qubit::Placeholder(q1)));
    assert_eq!(prog.get_used_qubits().len(), 2);
}

#[test]
fn c10_expand_defgate_sequences_keeps_calibration_qubits() {
    // The program mentions qubit 5 only in a calibration definition.
    let prog = p(r#"
DEFCAL X 5:
    NOP
DEFGATE seq a AS SEQUENCE:
    H a
    H a
seq 0
"#);
    check_c10("before", &prog);
    let expanded = prog.expand_defgate_sequences(|_| true).unwrap();
    check_c10("expand_defgate_sequences", &expanded);
}

#[test]
fn c10_expand_defgate_sequences_with_source_map_keeps_calibration_qubits() {
    let prog = p(r#"
DEFCAL MEASURE 5 addr:
    NOP
DEFGATE seq a AS SEQUENCE:
    H a
seq 0
"#);
    let (expanded, _map) = prog.expand_defgate_sequences_with_source_map(|_| true).unwrap();
    check_c10("expand_defgate_sequences_with_source_map", &expanded);
}

#[test]
fn c10_expand_defgate_sequences_no_calibrations() {
    let prog = p(r#"
DEFGATE seq a b AS SEQUENCE:
    H a
    CNOT a b
seq 0 3
X 7
"#);
    let expanded = prog.expand_defgate_sequences(|_| true).unwrap();
    check_c10("expand_defgate_sequences no cal", &expanded);
}

#[test]
fn c10_expand_calibrations_body_only_qubits() {
    // no calibration mentions a qubit outside the body: should be fine even with the known defect
    let prog = p("DEFCAL X 0:\n    Y 0\nDEFCAL X 1:\n    Y 1\nX 0\nX 1\n");
    let expanded = prog.expand_calibrations().unwrap();
    check_c10("expand_calibrations", &expanded);
}

#[test]
fn c10_simplify() {
    let prog = p(r#"
DEFFRAME 0 "rf":
    HARDWARE-OBJECT: "hw"
DEFFRAME 9 "rf":
    HARDWARE-OBJECT: "hw"
DEFWAVEFORM wf:
    1, 2
DEFCAL X 0:
    PULSE 0 "rf" wf
DEFCAL X 4:
    PULSE 4 "rf" wf
X 0
"#);
    let simplified = prog.simplify(&DefaultHandler).unwrap();
    check_c10("simplify", &simplified);
}

#[test]
fn c10_add_overlapping_then_content() {
    let a = p("DEFCAL X 0:\n    FENCE 7\nDEFCAL MEASURE 1 addr:\n    FENCE 11\nX 0\n");
    let b = p("DEFCAL X 0:\n    FENCE 8\nDEFCAL MEASURE 1 addr:\n    FENCE 12\nDEFCAL Y 3:\n    NOP\nY 3\n");
    let sum = a.clone() + b.clone();
    check_c10("a+b", &sum);
    let mut s2 = a.clone();
    s2 += b.clone();
    assert!(s2 == sum);
    // sum of replaced-and-new in both sets so that lengths line up misleadingly:
    // A has cal X 0 ; B has cal X 0 (replaces) -> len diff 0 != 1 -> rebuild. Fine.
}

#[test]
fn c10_add_measure_replaced_cal_added() {
    let a = p("DEFCAL MEASURE 1 addr:\n    FENCE 11\n");
    let b = p("DEFCAL MEASURE 1 addr:\n    FENCE 12\nDEFCAL X 0:\n    NOP\n");
    let sum = a + b;
    check_c10("a+b measure replaced", &sum);
}

#[test]
fn c10_frame_only_instructions_mention() {
    // Instructions mentioning a qubit only through a frame identifier.
    let prog = p("SET-PHASE 3 \"rf\" 1.0\nSHIFT-FREQUENCY 4 \"rf\" 1.0\nSWAP-PHASES 5 \"rf\" 6 \"rf\"\n");
    check_c10("frame-only", &prog);
    println!("frame-only used qubits: {:?}", prog.get_used_qubits());
}

// ---------------------------------------------------------------- C11

fn concat_reference(a: &Program, b: &Program) -> Program {
    let mut v = a.to_instructions();
    v.extend(b.to_instructions());
    Program::from_instructions(v)
}

#[test]
fn c11_overlapping_every_kind() {
    let a = p(r#"
PRAGMA EXTERN foo "OCTET (a : INTEGER)"
PRAGMA EXTERN onlya "OCTET"
DECLARE x BIT
DECLARE onlya BIT
DEFFRAME 0 "rf":
    HARDWARE-OBJECT: "hwA"
DEFWAVEFORM w:
    1, 2
DEFWAVEFORM onlya:
    1, 2
DEFCAL X 0:
    NOP
DEFCAL A 0:
    NOP
DEFCAL MEASURE 0 addr:
    NOP
DEFGATE G AS MATRIX:
    1, 0
    0, 1
DEFGATE GA AS MATRIX:
    1, 0
    0, 1
DEFCIRCUIT C a:
    X a
DEFCIRCUIT CA a:
    X a
X 0
Y 0
"#);
    let b = p(r#"
PRAGMA EXTERN onlyb "OCTET"
PRAGMA EXTERN foo "REAL (a : INTEGER)"
DECLARE onlyb BIT
DECLARE x REAL[4]
DEFFRAME 0 "rf":
    HARDWARE-OBJECT: "hwB"
DEFWAVEFORM onlyb:
    1, 2
DEFWAVEFORM w:
    3, 4
DEFCAL B 0:
    NOP
DEFCAL X 0:
    WAIT
DEFCAL MEASURE 1 addr:
    NOP
DEFCAL MEASURE 0 addr:
    WAIT
DEFGATE GB AS MATRIX:
    1, 0
    0, 1
DEFGATE G AS MATRIX:
    0, 1
    1, 0
DEFCIRCUIT CB a:
    X a
DEFCIRCUIT C a:
    Y a
Z 1
X 0
"#);
    let sum = a.clone() + b.clone();
    let reference = concat_reference(&a, &b);
    assert_eq!(sum.to_instructions(), reference.to_instructions());
    assert!(sum == reference);
    assert_eq!(sum.to_quil().unwrap(), reference.to_quil().unwrap());
    let mut s2 = a.clone();
    s2 += b.clone();
    assert!(s2 == sum);
    // body
    let body: Vec<String> = sum.body_instructions().map(|i| i.to_quil().unwrap()).collect();
    assert_eq!(body, vec!["X 0", "Y 0", "Z 1", "X 0"]);
    check_c10("sum", &sum);
    check_c09("sum", &sum);
    // identity
    assert!(a.clone() + Program::new() == a);
    assert!(Program::new() + a.clone() == a);
    assert_eq!((Program::new() + a.clone()).to_quil().unwrap(), a.to_quil().unwrap());
    let mut e = Program::new();
    e += a.clone();
    assert!(e == a);
}

#[test]
fn c11_add_to_self() {
    let a = p(ALL_KINDS);
    let sum = a.clone() + a.clone();
    let reference = concat_reference(&a, &a);
    assert!(sum == reference);
    assert_eq!(sum.to_quil().unwrap(), reference.to_quil().unwrap());
}

// ---------------------------------------------------------------- C33

fn run_count_body(program: &Program, counter: &str) -> Option<usize> {
    // Tiny interpreter for the loop scaffolding: supports MOVE/SUB on the counter region, LABEL, JUMP-WHEN.
    // Counts how many times a body "X 0" is executed. Gives up after 10_000 steps.
    let body: Vec<Instruction> = program.body_instructions().cloned().collect();
    let size = program.memory_regions.get(counter).map(|r| r.size.length as usize).unwrap_or(0);
    let mut mem = vec![0i64; size.max(8)];
    let mut pc = 0usize;
    let mut count = 0usize;
    let mut steps = 0usize;
    while pc < body.len() {
        steps += 1;
        if steps > 10_000 {
            return None;
        }
        match &body[pc] {
            Instruction::Gate(_) => count += 1,
            Instruction::Move(m) => {
                if let quil_rs::instruction::ArithmeticOperand::LiteralInteger(v) = &m.source {
                    mem[m.destination.index as usize] = *v;
                }
            }
            Instruction::Arithmetic(a) => {
                if let quil_rs::instruction::ArithmeticOperand::LiteralInteger(v) = &a.source {
                    mem[a.destination.index as usize] -= *v;
                }
            }
            Instruction::JumpWhen(j) => {
                if mem[j.condition.index as usize] != 0 {
                    pc = body
                        .iter()
                        .position(|i| matches!(i, Instruction::Label(l) if l.target == j.target))
                        .unwrap();
                }
            }
            _ => {}
        }
        pc += 1;
    }
    Some(count)
}

#[test]
fn c33_loop_counter_index_zero() {
    let prog = p("X 0\n");
    let looped = prog.wrap_in_loop(
        MemoryReference { name: "n".into(), index: 0 },
        Target::Fixed("start".into()),
        3,
    );
    assert_eq!(run_count_body(&looped, "n"), Some(3));
}

#[test]
fn c33_loop_counter_nonzero_index() {
    // The caller owns an INTEGER[2] region and asks for element 1 to be the loop counter.
    let prog = p("DECLARE n INTEGER[2]\nX 0\n");
    let looped = prog.wrap_in_loop(
        MemoryReference { name: "n".into(), index: 1 },
        Target::Fixed("start".into()),
        3,
    );
    println!("{}", looped.to_quil().unwrap());
    assert_eq!(
        run_count_body(&looped, "n"),
        Some(3),
        "the wrapped listing must run the body exactly 3 times:\n{}",
        looped.to_quil().unwrap()
    );
}

#[test]
fn c33_existing_declaration_preserved() {
    // Every definition is preserved in all cases -- including the declaration of the region that holds the counter.
    let prog = p("DECLARE n INTEGER[4]\nDECLARE ro BIT\nMOVE n[3] 7\nX 0\n");
    let before = prog.memory_regions.get("n").cloned().unwrap();
    let looped = prog.wrap_in_loop(
        MemoryReference { name: "n".into(), index: 0 },
        Target::Fixed("start".into()),
        2,
    );
    let after = looped.memory_regions.get("n").cloned().unwrap();
    assert_eq!(before, after, "DECLARE n INTEGER[4] was replaced:\n{}", looped.to_quil().unwrap());
}

#[test]
fn c33_all_kinds_preserved() {
    let prog = p(ALL_KINDS);
    for n in [0u32, 1, 2, 5] {
        let looped = prog.wrap_in_loop(
            MemoryReference { name: "loopcount".into(), index: 0 },
            Target::Fixed("start".into()),
            n,
        );
        assert_eq!(looped.calibrations, prog.calibrations);
        assert_eq!(looped.frames, prog.frames);
        assert_eq!(looped.waveforms, prog.waveforms);
        assert_eq!(looped.gate_definitions, prog.gate_definitions);
        assert_eq!(looped.circuits, prog.circuits);
        assert_eq!(looped.extern_pragma_map, prog.extern_pragma_map);
        for (k, v) in &prog.memory_regions {
            assert_eq!(looped.memory_regions.get(k), Some(v));
        }
        match n {
            0 => assert_eq!(looped.body_instructions().count(), 0),
            1 => assert!(looped == prog),
            _ => {
                let body: Vec<_> = looped.body_instructions().cloned().collect();
                let orig: Vec<_> = prog.body_instructions().cloned().collect();
                assert_eq!(&body[2..2 + orig.len()], &orig[..]);
                assert_eq!(body.len(), orig.len() + 4);
            }
        }
    }
}

// ---------------------------------------------------------------- C19

type Map = SourceMap<InstructionIndex, ExpansionResult<CalibrationExpansion>>;
type Entry = SourceMapEntry<InstructionIndex, ExpansionResult<CalibrationExpansion>>;

fn dump(map: &Map, indent: usize, out: &mut String) {
    for e in map.entries() {
        match e.target_location() {
            ExpansionResult::Unmodified(i) => {
                out.push_str(&format!("{}src {} -> unmodified {}\n", " ".repeat(indent), e.source_location().0, i.0));
            }
            ExpansionResult::Rewritten(x) => {
                out.push_str(&format!(
                    "{}src {} -> rewritten {}..{}\n",
                    " ".repeat(indent),
                    e.source_location().0,
                    x.range().start.0,
                    x.range().end.0
                ));
                dump(x.expansions(), indent + 2, out);
            }
        }
    }
}

/// Checks only Rewritten ranges (the staleness of nested Unmodified indices is a known defect):
/// within an expansion of length `len`, nested rewritten ranges must be ordered, disjoint, inside 0..len.
/// `expected_len(calibration name)` gives the number of body instructions each nested calibration must produce.
fn check_nested_ranges(x: &CalibrationExpansion, path: &str, errors: &mut Vec<String>) {
    let len = x.range().end.0 - x.range().start.0;
    let mut cursor = 0usize;
    for e in x.expansions().entries() {
        if let ExpansionResult::Rewritten(inner) = e.target_location() {
            let (s, t) = (inner.range().start.0, inner.range().end.0);
            if s < cursor || t < s || t > len {
                errors.push(format!("{path}/src{}: range {s}..{t} not inside/ordered (cursor {cursor}, parent len {len})", e.source_location().0));
            }
            cursor = t.max(cursor);
            check_nested_ranges(inner, &format!("{path}/src{}", e.source_location().0), errors);
        }
    }
}

/// Absolute target indices covered by the *leaf-level rewritten ranges and* the nested structure:
/// returns for each nested rewritten expansion its absolute range.
fn absolute_ranges(x: &CalibrationExpansion, base: usize, path: String, out: &mut Vec<(String, usize, usize)>) {
    // `x.range()` is relative to `base` for nested, absolute (base = 0) for top-level.
    let start = base + x.range().start.0;
    let end = base + x.range().end.0;
    out.push((path.clone(), start, end));
    for e in x.expansions().entries() {
        if let ExpansionResult::Rewritten(inner) = e.target_location() {
            absolute_ranges(inner, start, format!("{path}/{}", e.source_location().0), out);
        }
    }
}

fn expand(src: &str) -> (Program, Program, Map) {
    let prog = p(src);
    let (out, map) = prog.expand_calibrations_with_source_map().unwrap();
    let plain = prog.expand_calibrations().unwrap();
    assert_eq!(plain.to_instructions(), out.to_instructions(), "with/without map differ");
    (prog, out, map)
}

fn check_top_level(prog: &Program, out: &Program, map: &Map) -> Vec<String> {
    let mut errors = vec![];
    let n_out = out.body_instructions().count();
    let mut cursor = 0usize;
    let mut last_src: Option<usize> = None;
    for e in map.entries() {
        let s = e.source_location().0;
        if let Some(l) = last_src {
            if s <= l {
                errors.push(format!("source order: {s} after {l}"));
            }
        }
        last_src = Some(s);
        match e.target_location() {
            ExpansionResult::Unmodified(i) => {
                if i.0 != cursor {
                    errors.push(format!("unmodified {} but cursor {cursor}", i.0));
                }
                if out.get_instruction(i.0) != prog.get_instruction(s) {
                    errors.push(format!("unmodified src {s} not identical at {}", i.0));
                }
                cursor = i.0 + 1;
            }
            ExpansionResult::Rewritten(x) => {
                if x.range().start.0 != cursor {
                    errors.push(format!("rewritten start {} but cursor {cursor}", x.range().start.0));
                }
                cursor = x.range().end.0;
                check_nested_ranges(x, &format!("top{s}"), &mut errors);
            }
        }
    }
    if cursor != n_out {
        errors.push(format!("coverage ends at {cursor}, body has {n_out}"));
    }
    // inverse queries
    for t in 0..n_out {
        let sources = map.list_sources(&InstructionIndex(t));
        if sources.len() != 1 {
            errors.push(format!("target {t} has {} sources", sources.len()));
        }
        for s in sources {
            let targets = map.list_targets(s);
            if !targets.iter().any(|tl| quil_rs::program::SourceMapIndexable::<InstructionIndex>::contains(*tl, &InstructionIndex(t))) {
                errors.push(format!("target {t} -> source {} -> not back", s.0));
            }
        }
    }
    errors
}

#[test]
fn c19_flat_and_two_level() {
    let (prog, out, map) = expand(
        "DEFCAL X 0:\n    Y 0\n    Z 0\nDEFCAL Y 0:\n    H 0\n    H 0\nH 1\nX 0\nY 0\nH 2\nX 0\n",
    );
    let errors = check_top_level(&prog, &out, &map);
    let mut d = String::new();
    dump(&map, 0, &mut d);
    assert!(errors.is_empty(), "{errors:#?}\n{d}");
}

#[test]
fn c19_expansion_to_nothing_and_only_declare() {
    // A calibration whose expansion leaves nothing in the body.
    let (prog, out, map) = expand(
        "DEFCAL X 0:\n    DECLARE t REAL\nDEFCAL Y 0:\n    DECLARE u REAL\n    Z 0\nH 1\nX 0\nY 0\nH 2\n",
    );
    let errors = check_top_level(&prog, &out, &map);
    let mut d = String::new();
    dump(&map, 0, &mut d);
    assert!(errors.is_empty(), "{errors:#?}\n{d}");
}

/// Three levels. OUTER hoists a DECLARE immediately before its nested INNER expansion; INNER itself contains a
/// nested MID expansion. The DECLARE is *not* inside INNER, so the records inside INNER must be untouched.
#[test]
fn c19_hoisted_declare_immediately_before_nested_expansion() {
    let src = r#"
DEFCAL OUTER 0:
    DECLARE tmp REAL
    INNER 0
DEFCAL INNER 0:
    MID 0
    Z 0
DEFCAL MID 0:
    X 0
    Y 0
OUTER 0
"#;
    let (prog, out, map) = expand(src);
    let body: Vec<String> = out.body_instructions().map(|i| i.to_quil().unwrap()).collect();
    assert_eq!(body, vec!["X 0", "Y 0", "Z 0"]);
    let mut d = String::new();
    dump(&map, 0, &mut d);
    println!("{d}");

    let top = match map.entries()[0].target_location() {
        ExpansionResult::Rewritten(x) => x,
        _ => panic!(),
    };
    let mut abs = vec![];
    absolute_ranges(top, 0, "OUTER".into(), &mut abs);
    println!("{abs:?}");
    // OUTER covers 0..3, INNER covers 0..3, MID covers 0..2 (X 0 and Y 0)
    let find = |name: &str| abs.iter().find(|(p, _, _)| p == name).cloned();
    assert_eq!(find("OUTER"), Some(("OUTER".into(), 0, 3)));
    assert_eq!(find("OUTER/1"), Some(("OUTER/1".into(), 0, 3)), "INNER range\n{d}");
    assert_eq!(
        find("OUTER/1/0"),
        Some(("OUTER/1/0".into(), 0, 2)),
        "MID (X 0; Y 0) must cover 0..2 of INNER; map:\n{d}"
    );
    let _ = prog;
}

/// Same shape, but MID yields a single instruction: its record then disappears entirely.
#[test]
fn c19_hoisted_declare_before_nested_expansion_drops_record() {
    let src = r#"
DEFCAL OUTER 0:
    DECLARE tmp REAL
    INNER 0
DEFCAL INNER 0:
    MID 0
    Z 0
DEFCAL MID 0:
    X 0
OUTER 0
"#;
    let (_prog, out, map) = expand(src);
    let body: Vec<String> = out.body_instructions().map(|i| i.to_quil().unwrap()).collect();
    assert_eq!(body, vec!["X 0", "Z 0"]);
    let mut d = String::new();
    dump(&map, 0, &mut d);
    println!("{d}");
    let top = match map.entries()[0].target_location() {
        ExpansionResult::Rewritten(x) => x,
        _ => panic!(),
    };
    let inner = top
        .expansions()
        .entries()
        .iter()
        .find_map(|e| match e.target_location() {
            ExpansionResult::Rewritten(x) => Some(x),
            _ => None,
        })
        .expect("INNER record");
    // Which calibration produced output instruction 0 (X 0) inside INNER? MID.
    let sources = inner.expansions().list_sources(&InstructionIndex(0));
    println!("sources of INNER-relative target 0: {sources:?}");
    let mid_records: Vec<_> = inner
        .expansions()
        .entries()
        .iter()
        .filter(|e| matches!(e.target_location(), ExpansionResult::Rewritten(_)))
        .collect();
    assert_eq!(mid_records.len(), 1, "the record for MID 0 (source 0 of INNER) is missing:\n{d}");
}

#[test]
fn c19_hoisted_declare_inside_nested_various_positions() {
    // Declares at first / middle / last position of the nested calibration, with further nesting after them.
    for (name, inner_body) in [
        ("first", "    DECLARE t REAL\n    MID 0\n    Z 0\n"),
        ("middle", "    MID 0\n    DECLARE t REAL\n    Z 0\n"),
        ("middle2", "    Z 0\n    DECLARE t REAL\n    MID 0\n"),
        ("last", "    MID 0\n    Z 0\n    DECLARE t REAL\n"),
    ] {
        let src = format!(
            "DEFCAL OUTER 0:\n    H 0\n    INNER 0\n    H 0\nDEFCAL INNER 0:\n{inner_body}DEFCAL MID 0:\n    X 0\n    Y 0\nOUTER 0\n"
        );
        let (prog, out, map) = expand(&src);
        let mut d = String::new();
        dump(&map, 0, &mut d);
        let errors = check_top_level(&prog, &out, &map);
        assert!(errors.is_empty(), "[{name}] {errors:#?}\n{d}");
        let top = match map.entries()[0].target_location() {
            ExpansionResult::Rewritten(x) => x,
            _ => panic!(),
        };
        let mut abs = vec![];
        absolute_ranges(top, 0, "OUTER".into(), &mut abs);
        // MID always yields X 0, Y 0 -> find them in the output
        let body: Vec<String> = out.body_instructions().map(|i| i.to_quil().unwrap()).collect();
        let xpos = body.iter().position(|s| s == "X 0").unwrap();
        let mid = abs.iter().filter(|(p, _, _)| p.matches('/').count() == 2).cloned().collect::<Vec<_>>();
        assert_eq!(mid.len(), 1, "[{name}] {abs:?}\n{d}");
        assert_eq!((mid[0].1, mid[0].2), (xpos, xpos + 2), "[{name}] MID range wrong: {abs:?}\nbody {body:?}\n{d}");
        let inner = abs.iter().filter(|(p, _, _)| p.matches('/').count() == 1).cloned().collect::<Vec<_>>();
        assert_eq!((inner[0].1, inner[0].2), (1, 4), "[{name}] INNER range wrong: {abs:?}\n{d}");
    }
}

#[test]
fn c19_top_level_declare_positions() {
    for (name, outer_body, mid_at) in [
        ("decl,mid,z", "    DECLARE t REAL\n    MID 0\n    Z 0\n", 0usize),
        ("mid,decl,z", "    MID 0\n    DECLARE t REAL\n    Z 0\n", 0),
        ("z,decl,mid", "    Z 0\n    DECLARE t REAL\n    MID 0\n", 1),
        ("z,decl,decl,mid", "    Z 0\n    DECLARE t REAL\n    DECLARE u REAL\n    MID 0\n", 1),
        ("decl,decl,mid", "    DECLARE t REAL\n    DECLARE u REAL\n    MID 0\n", 0),
        ("decl,z,mid", "    DECLARE t REAL\n    Z 0\n    MID 0\n", 1),
    ] {
        let src = format!(
            "DEFCAL OUTER 0:\n{outer_body}DEFCAL MID 0:\n    X 0\n    Y 0\nH 3\nOUTER 0\nH 4\n"
        );
        let (prog, out, map) = expand(&src);
        let mut d = String::new();
        dump(&map, 0, &mut d);
        let errors = check_top_level(&prog, &out, &map);
        assert!(errors.is_empty(), "[{name}] {errors:#?}\n{d}");
        let top = match map.entries()[1].target_location() {
            ExpansionResult::Rewritten(x) => x,
            _ => panic!(),
        };
        let mut abs = vec![];
        absolute_ranges(top, 0, "OUTER".into(), &mut abs);
        let mid = abs.iter().filter(|(p, _, _)| p.matches('/').count() == 1).cloned().collect::<Vec<_>>();
        assert_eq!(mid.len(), 1, "[{name}] {abs:?}\n{d}");
        assert_eq!((mid[0].1, mid[0].2), (1 + mid_at, 1 + mid_at + 2), "[{name}] MID range wrong {abs:?}\n{d}");
    }
}

#[test]
fn c19_measure_calibration_nested() {
    let src = r#"
DECLARE ro BIT
DEFCAL MEASURE 0 addr:
    DECLARE scratch REAL
    PREP 0
    CAPTURE 0 "ro" flat(duration: 1, iq: 1) addr
DEFCAL PREP 0:
    X 0
    X 0
H 0
MEASURE 0 ro
MEASURE 1 ro
"#;
    let (prog, out, map) = expand(src);
    let mut d = String::new();
    dump(&map, 0, &mut d);
    let errors = check_top_level(&prog, &out, &map);
    assert!(errors.is_empty(), "{errors:#?}\n{d}");
}

#[test]
fn c19_list_targets_by_calibration_source() {
    use quil_rs::program::CalibrationSource;
    let (_prog, _out, map) = expand("DEFCAL X 0:\n    Y 0\nDEFCAL Y 0:\n    Z 0\nX 0\nY 0\nX 0\n");
    let y = CalibrationSource::Calibration(CalibrationIdentifier {
        modifiers: vec![],
        name: "Y".into(),
        parameters: vec![],
        qubits: vec![Qubit::Fixed(0)],
    });
    let srcs = map.list_sources(&y);
    assert_eq!(srcs, vec![&InstructionIndex(1)]);
}

#[test]
fn c19_extern_pragma_hoisted_from_calibration() {
    let src = "DEFCAL OUTER 0:\n    PRAGMA EXTERN foo \"OCTET\"\n    MID 0\nDEFCAL MID 0:\n    X 0\n    Y 0\nOUTER 0\nH 1\n";
    let (prog, out, map) = expand(src);
    let mut d = String::new();
    dump(&map, 0, &mut d);
    let errors = check_top_level(&prog, &out, &map);
    assert!(errors.is_empty(), "{errors:#?}\n{d}");
    let top = match map.entries()[0].target_location() {
        ExpansionResult::Rewritten(x) => x,
        _ => panic!(),
    };
    let mut abs = vec![];
    absolute_ranges(top, 0, "OUTER".into(), &mut abs);
    assert_eq!(abs[1], ("OUTER/1".to_string(), 0, 2), "{d}");
}

// keep imports used
#[allow(dead_code)]
fn _unused(_: Declaration, _: ScalarType, _: Vector, _: Entry) {}

// ---------------------------------------------------------------- C19 randomized differential check

#[derive(Clone, Debug)]
enum Item {
    Declare(String),
    Leaf,
    Call(usize),
}

struct Lcg(u64);
impl Lcg {
    fn next(&mut self, n: u64) -> u64 {
        self.0 = self.0.wrapping_mul(6364136223846793005).wrapping_add(1442695040888963407);
        (self.0 >> 33) % n
    }
}

fn body_len(cals: &[Vec<Item>], i: usize) -> usize {
    cals[i]
        .iter()
        .map(|it| match it {
            Item::Declare(_) => 0,
            Item::Leaf => 1,
            Item::Call(j) => body_len(cals, *j),
        })
        .sum()
}

/// Expected nested rewritten records: (path, relative start, relative end).
fn expected_records(cals: &[Vec<Item>], i: usize, path: String, out: &mut Vec<(String, usize, usize)>) {
    let mut offset = 0;
    for (k, it) in cals[i].iter().enumerate() {
        match it {
            Item::Declare(_) => {}
            Item::Leaf => offset += 1,
            Item::Call(j) => {
                let l = body_len(cals, *j);
                if l > 0 {
                    let pth = format!("{path}/{k}");
                    out.push((pth.clone(), offset, offset + l));
                    expected_records(cals, *j, pth, out);
                }
                offset += l;
            }
        }
    }
}

fn actual_records(x: &CalibrationExpansion, path: String, out: &mut Vec<(String, usize, usize)>) {
    for e in x.expansions().entries() {
        if let ExpansionResult::Rewritten(inner) = e.target_location() {
            if inner.range().start.0 == inner.range().end.0 {
                continue; // empty records: not compared
            }
            let pth = format!("{path}/{}", e.source_location().0);
            out.push((pth.clone(), inner.range().start.0, inner.range().end.0));
            actual_records(inner, pth, out);
        }
    }
}

fn render(cals: &[Vec<Item>]) -> String {
    let mut s = String::new();
    for (i, c) in cals.iter().enumerate() {
        s.push_str(&format!("DEFCAL C{i} 0:\n"));
        for it in c {
            match it {
                Item::Declare(n) => s.push_str(&format!("    DECLARE {n} REAL\n")),
                Item::Leaf => s.push_str("    L 0\n"),
                Item::Call(j) => s.push_str(&format!("    C{j} 0\n")),
            }
        }
    }
    s.push_str("H 1\nC0 0\nH 2\n");
    s
}

#[test]
fn c19_randomized_nested_rewritten_ranges() {
    let mut rng = Lcg(12345);
    let mut failures = vec![];
    let mut decl = 0;
    for case in 0..400 {
        let n = 2 + rng.next(3) as usize; // 2..4 calibrations
        let mut cals: Vec<Vec<Item>> = vec![];
        for i in 0..n {
            let len = 1 + rng.next(4) as usize;
            let mut body = vec![];
            for _ in 0..len {
                let r = rng.next(4);
                let it = if r == 0 {
                    decl += 1;
                    Item::Declare(format!("d{decl}"))
                } else if r == 1 || i + 1 >= n {
                    Item::Leaf
                } else {
                    Item::Call(i + 1 + rng.next((n - i - 1) as u64) as usize)
                };
                body.push(it);
            }
            cals.push(body);
        }
        let src = render(&cals);
        let prog = p(&src);
        let (out, map) = prog.expand_calibrations_with_source_map().unwrap();
        let total = body_len(&cals, 0);
        assert_eq!(out.body_instructions().count(), total + 2);
        let mut expected = vec![];
        expected_records(&cals, 0, "C0".into(), &mut expected);
        let mut actual = vec![];
        if total > 0 {
            let top = map
                .entries()
                .iter()
                .find_map(|e| match e.target_location() {
                    ExpansionResult::Rewritten(x) => Some(x),
                    _ => None,
                })
                .expect("top-level record");
            assert_eq!((top.range().start.0, top.range().end.0), (1, 1 + total), "{src}");
            actual_records(top, "C0".into(), &mut actual);
        }
        let top_errors = check_top_level(&prog, &out, &map);
        assert!(top_errors.is_empty(), "top-level errors {top_errors:?}\n{src}");
        if expected != actual {
            failures.push(format!("case {case}:\n{src}expected {expected:?}\nactual   {actual:?}\n"));
        }
    }
    assert!(
        failures.is_empty(),
        "{} of 400 random calibration trees have wrong nested rewritten ranges:\n{}",
        failures.len(),
        if std::env::var("HUNT_ALL").is_ok() { failures.join("\n") } else { failures[0].clone() }
    );
}


/// Variant trigger of the same defect: the hoisted DECLARE is the *last* instruction of one nested expansion and the
/// next sibling nested expansion has its own nested records.
#[test]
fn c19_hoisted_declare_at_end_of_previous_sibling() {
    let src = r#"
DEFCAL OUTER 0:
    A 0
    B 0
DEFCAL A 0:
    X 0
    DECLARE tmp REAL
DEFCAL B 0:
    DEEP 0
DEFCAL DEEP 0:
    Y 0
    Y 0
OUTER 0
"#;
    let (_prog, out, map) = expand(src);
    let body: Vec<String> = out.body_instructions().map(|i| i.to_quil().unwrap()).collect();
    assert_eq!(body, vec!["X 0", "Y 0", "Y 0"]);
    let mut d = String::new();
    dump(&map, 0, &mut d);
    let top = match map.entries()[0].target_location() {
        ExpansionResult::Rewritten(x) => x,
        _ => panic!(),
    };
    let mut abs = vec![];
    absolute_ranges(top, 0, "OUTER".into(), &mut abs);
    assert_eq!(
        abs,
        vec![
            ("OUTER".to_string(), 0, 3),
            ("OUTER/0".to_string(), 0, 1),
            ("OUTER/1".to_string(), 1, 3),
            ("OUTER/1/0".to_string(), 1, 3),
        ],
        "{d}"
    );
}

#[test]
fn c33_existing_declaration_sharing_preserved() {
    let prog = p("DECLARE base INTEGER[4]\nDECLARE n INTEGER SHARING base OFFSET 2 INTEGER\nX 0\n");
    let before = prog.memory_regions.get("n").cloned().unwrap();
    let looped = prog.wrap_in_loop(
        MemoryReference { name: "n".into(), index: 0 },
        Target::Fixed("start".into()),
        2,
    );
    let after = looped.memory_regions.get("n").cloned().unwrap();
    assert_eq!(before, after, "{}", looped.to_quil().unwrap());
}

// ---------------------------------------------------------------- borderline / definitional

/// BORDERLINE (depends on reading "mentioned" as more than Instruction::get_qubits):
/// frame-mutating instructions name a qubit through their frame identifier, but neither the used-qubit set
/// nor placeholder resolution sees it.
#[test]
fn borderline_c10_frame_instruction_qubits_not_counted_nor_resolved() {
    use quil_rs::instruction::{FrameIdentifier, SetPhase};
    use quil_rs::expression::Expression;
    let q = QubitPlaceholder::default();
    let mut prog = Program::new();
    prog.add_instruction(Instruction::SetPhase(SetPhase {
        frame: FrameIdentifier { name: "rf".into(), qubits: vec![Qubit::Placeholder(q.clone())] },
        phase: Expression::PiConstant(),
    }));
    prog.resolve_placeholders();
    let still_placeholder = match prog.get_instruction(0).unwrap() {
        Instruction::SetPhase(sp) => matches!(sp.frame.qubits[0], Qubit::Placeholder(_)),
        _ => unreachable!(),
    };
    assert!(!still_placeholder, "resolve_placeholders left the frame's placeholder qubit unresolved");
    assert_eq!(prog.get_used_qubits().len(), 1, "SET-PHASE q \"rf\" pi mentions one qubit");
}

/// BORDERLINE (direct mutation of a pub field that the Python bindings expose with get/set):
#[test]
fn borderline_c10_pub_field_mutation_bypasses_cache() {
    let mut prog = p("DEFCAL X 5:\n    NOP\nX 0\n");
    prog.calibrations = Default::default();
    assert_eq!(prog.get_used_qubits(), &content_qubits(&prog));
}

#[test]
fn c09_many_frames_views_agree() {
    let mut src = String::new();
    for i in 0..12 {
        src.push_str(&format!("DEFFRAME {i} \"rf\":\n    HARDWARE-OBJECT: \"hw{i}\"\n"));
    }
    src.push_str("X 0\n");
    for _ in 0..10 {
        let prog = p(&src);
        assert_eq!(prog.to_instructions(), prog.clone().into_instructions());
        assert_eq!(prog.to_instructions(), prog.to_instructions());
        assert!(rebuilt(&prog) == prog);
    }
}
