//! Defect hunt for quil-rs (properties C01, C05, C06, C23, C24, C28, C30). Public API only.
//!
//! * Tests named `c..._` that are listed in `_deliver/findings.md` as CONFIRMED fail on the unchanged code.
//! * Tests named `borderline_...` also fail; they record behaviour that is questionable but that is
//!   not claimed as a confirmed violation.
//! * All other tests pass and record scenarios that behave correctly.
//! * `explore_*` tests are ignored by default; they only print what the library does.
#![allow(dead_code, unused_imports)]
use quil_rs::expression::Expression;
use quil_rs::instruction::{FrameIdentifier, Instruction, MemoryReference};
use quil_rs::quil::Quil;
use quil_rs::Program;
use std::panic::catch_unwind;
use std::str::FromStr;

fn prog(s: &str) -> String {
    let s2 = s.to_owned();
    match catch_unwind(move || Program::from_str(&s2)) {
        Err(e) => format!("PANIC: {:?}", e.downcast_ref::<String>().cloned().or_else(|| e.downcast_ref::<&str>().map(|s| s.to_string()))),
        Ok(Ok(p)) => format!("OK: {:?}", p.to_instructions()),
        Ok(Err(e)) => {
            let m = format!("{e}");
            format!("ERR: {}", m.chars().take(100).collect::<String>())
        }
    }
}

#[test]
#[ignore = "exploration only: prints observed behaviour (run with --ignored --nocapture)"]
fn explore_numbers() {
    let cases = [
        "MOVE ro 18446744073709551615",
        "MOVE ro 9223372036854775807",
        "MOVE ro 9223372036854775808",
        "MOVE ro -9223372036854775808",
        "MOVE ro -9223372036854775809",
        "MOVE ro 0x",
        "MOVE ro 0x_",
        "MOVE ro 0x_1",
        "MOVE ro 0x1_",
        "MOVE ro 0b",
        "MOVE ro 0b2",
        "MOVE ro 0b12",
        "MOVE ro 0o18",
        "MOVE ro 0o",
        "MOVE ro 0xg",
        "MOVE ro 0XFF",
        "MOVE ro 0B11",
        "MOVE ro 0O17",
        "MOVE ro 0xffffffffffffffff",
        "MOVE ro 0x7fffffffffffffff",
        "MOVE ro 0x10000000000000000",
        "MOVE ro 1_000",
        "MOVE ro 1__000__",
        "MOVE ro 1_",
        "MOVE ro 1_.5",
        "MOVE ro 1._5",
        "MOVE ro 1.5_",
        "MOVE ro 1.5_e2",
        "MOVE ro 1.5e_2",
        "MOVE ro 1.5e2_",
        "MOVE ro 1e5",
        "MOVE ro 1E5",
        "MOVE ro 1e+5",
        "MOVE ro 1e-5",
        "MOVE ro 1e",
        "MOVE ro 1e-",
        "MOVE ro 1e+",
        "MOVE ro 1e999999",
        "MOVE ro 1e-999999",
        "MOVE ro 1e400",
        "MOVE ro 1e308",
        "MOVE ro 1.7976931348623157e308",
        "MOVE ro 1.7976931348623159e308",
        "MOVE ro 1e-400",
        "MOVE ro .5",
        "MOVE ro 5.",
        "MOVE ro .",
        "MOVE ro .e5",
        "MOVE ro 5.e5",
        "MOVE ro .5e5",
        "MOVE ro 00",
        "MOVE ro 007",
        "MOVE ro 00.5",
        "MOVE ro 0x1.8",
        "MOVE ro 0x1e5",
        "MOVE ro 0x1p3",
        "MOVE ro 0b1e5",
        "MOVE ro 0b1.1",
        "MOVE ro 12abc",
        "MOVE ro 1.5abc",
        "MOVE ro 1e5x",
        "MOVE ro 100000000000000000000",
        "MOVE ro 100000000000000000000.0",
        "MOVE ro 100000000000000000000e0",
        "MOVE ro 18446744073709551616.5",
        "MOVE ro 0.100000000000000000000000000000000000000000000000001",
        "MOVE ro -0",
        "MOVE ro -0.0",
        "MOVE ro - 5",
        "MOVE ro --5",
        "MOVE ro +5",
        "MOVE ro -0x10",
        "MOVE ro 9007199254740993.0",
        "MOVE ro 0.1",
        "MOVE ro 123456789012345678.0",
        "MOVE ro 4.35",
        "MOVE ro 2.2250738585072011e-308",
        "MOVE ro 1__e1",
        "MOVE ro 1e1__0",
        "MOVE ro 1e0x1",
        "MOVE ro 0e0",
        "MOVE ro 0x0",
        "MOVE ro 0b0",
        "MOVE ro 0b_",
        "MOVE ro 0b_1",
        "MOVE ro 0b1_",
        "MOVE ro 0b1_1",
        "MOVE ro 0x1__f",
        "MOVE ro 0o7_7",
        "MOVE ro 0xe",
        "MOVE ro 0xe+1",
        "MOVE ro 0x1e+1",
        "MOVE ro 0b1e+1",
        "MOVE ro 1.e",
        "MOVE ro 1..2",
        "MOVE ro 1.2.3",
        "MOVE ro 0.5.",
    ];
    for c in cases {
        println!("{c:50} => {}", prog(c));
    }
}

fn generic<T: std::fmt::Debug, E: std::fmt::Display>(f: impl FnOnce() -> Result<T, E> + std::panic::UnwindSafe) -> String {
    match catch_unwind(f) {
        Err(e) => format!("PANIC: {:?}", e.downcast_ref::<String>().cloned().or_else(|| e.downcast_ref::<&str>().map(|s| s.to_string()))),
        Ok(Ok(p)) => format!("OK: {:?}", p),
        Ok(Err(e)) => {
            let m = format!("{e}");
            format!("ERR: {}", m.chars().take(100).collect::<String>())
        }
    }
}

#[test]
#[ignore = "exploration only: prints observed behaviour (run with --ignored --nocapture)"]
fn explore_misc() {
    let cases = [
        "X 18446744073709551615",
        "X 18446744073709551616",
        "DECLARE ro BIT[99999999999999999999]",
        "DECLARE ro BIT[18446744073709551615]",
        "DECLARE ro BIT[0]",
        "DECLARE ro BIT[-1]",
        "MEASURE 0 ro[99999999999999999999]",
        "MEASURE 0 ro[18446744073709551615]",
        "RX(1e400) 0",
        "RX(1e308*10) 0",
        "DELAY 0 1",
        "DELAY 0 18446744073709551615",
        "DELAY 0 1 2",
        "DELAY 0 2*3",
        "DELAY 0 2 -1",
        "DELAY 0 pi",
        "DELAY 0 \"rf\" pi",
        "DELAY 0 theta",
        "DELAY 0 theta[0]",
        "DELAY 0 1.5",
        "DELAY 1.5",
        "DELAY 1",
        "DELAY",
        "DELAY \"rf\" 1",
        "DELAY q 1",
        "DELAY 0 1e-6",
        "DELAY 0 0x10",
        "PRAGMA",
        "PRAGMA foo 18446744073709551615",
        "PRAGMA foo -1",
        "PRAGMA foo 1.5",
        "PRAGMA foo \"unterminated",
        "PRAGMA foo \"a\" \"b\"",
        "PRAGMA EXTERN",
        "PRAGMA EXTERN 5",
        "PRAGMA EXTERN foo \"garbage ((\"",
        "PRAGMA EXTERN foo \"INTEGER (x : INTEGER[99999999999999999999])\"",
        "DEFGATE P AS PERMUTATION:\n    0, 1",
        "DEFGATE P AS PERMUTATION:\n    1, 18446744073709551615",
        "DEFGATE P AS PERMUTATION:\n    -1, 0",
        "DEFGATE P AS PERMUTATION:\n",
        "DEFGATE P AS PERMUTATION:",
        "DEFGATE P:\n    -1, 0\n    0, -1",
        "DEFGATE P:\n    -1.5e3i, 0\n    0, -i",
        "DEFGATE P:\n",
        "DEFGATE P:",
        "DEFGATE P",
        "DEFGATE",
        "DEFGATE P AS",
        "DEFGATE P AS FOO:\n    1",
        "DEFGATE P(%a, %a) q AS PAULI-SUM:\n    X(%a) q",
        "DEFGATE P(%a) q AS PAULI-SUM:\n    XY(%a) q",
        "DEFGATE P(%a) q AS PAULI-SUM:\n    Q(%a) q",
        "DEFGATE P(%a) q q AS PAULI-SUM:\n    XX(%a) q q",
        "DEFGATE P(%a) AS PAULI-SUM:\n    X(%a) q",
        "DEFGATE P a b AS SEQUENCE:\n    X a\n    Y c",
        "DEFGATE P AS SEQUENCE:\n    X 0",
        "DEFGATE P a AS SEQUENCE:\n    P a",
        "DEFGATE P a a AS SEQUENCE:\n    X a",
        "DEFGATE P a AS SEQUENCE:\n",
        "DEFCIRCUIT",
        "DEFCIRCUIT C:",
        "DEFCIRCUIT C:\n",
        "DEFCIRCUIT C:\n    ",
        "DEFCIRCUIT C(%a, %a) q q:\n    RX(%a) q",
        "DEFCIRCUIT C 0:\n    X 0",
        "DEFCAL X 0:",
        "DEFCAL X 0:\n",
        "DEFCAL X 0:\n    DEFCAL Y 0:\n        X 0",
        "DEFCAL X 0:\n    DEFCAL Y 0:\n    X 0",
        "DEFCAL MEASURE",
        "DEFCAL MEASURE 0 addr:\n    X 0",
        "DEFCAL MEASURE !x 0 addr:\n    X 0",
        "DEFCAL MEASURE ! 0 addr:\n    X 0",
        "CALL",
        "CALL foo",
        "CALL foo 1 2.5 3i ro[0] ro bar",
        "CALL foo -1",
        "CALL foo ro[18446744073709551615]",
        "NONBLOCKING",
        "NONBLOCKING X 0",
        "NONBLOCKING NONBLOCKING PULSE 0 \"rf\" w",
        "NONBLOCKING PULSE",
        "NONBLOCKING FENCE 0",
        "NONBLOCKING DELAY 0 1",
        "NONBLOCKING MEASURE 0",
        "PULSE 0 \"rf\" w(",
        "PULSE 0 \"rf\" w(a:",
        "PULSE 0 \"rf\" w(a: 1,",
        "PULSE 0 \"rf\" w(a: 1, a: 2)",
        "PULSE 0 \"rf\" w/",
        "PULSE 0 \"rf\" w/x/y",
        "PULSE \"rf\" w",
        "PULSE 0 w",
        "CAPTURE 0 \"rf\" w ro[",
        "RAW-CAPTURE 0 \"rf\" 1 ro",
        "RAW-CAPTURE 0 \"rf\" ro ro",
        "RAW-CAPTURE 0 \"rf\" ro",
        "SET-FREQUENCY 0 \"rf\"",
        "SET-FREQUENCY 0 \"rf\" (",
        "SET-FREQUENCY 0 \"rf\" ()",
        "SET-FREQUENCY 0 \"rf\" sin",
        "SET-FREQUENCY 0 \"rf\" sin(",
        "SET-FREQUENCY 0 \"rf\" sin()",
        "SET-FREQUENCY 0 \"rf\" sin[0]",
        "SET-FREQUENCY 0 \"rf\" 1 +",
        "SET-FREQUENCY 0 \"rf\" 1 + +",
        "SET-FREQUENCY 0 \"rf\" - - 1",
        "SET-FREQUENCY 0 \"rf\" -",
        "SET-FREQUENCY 0 \"rf\" 1 ^ -1",
        "SET-FREQUENCY 0 \"rf\" 2i",
        "SET-FREQUENCY 0 \"rf\" 2 i",
        "SET-FREQUENCY 0 \"rf\" 2I",
        "SET-FREQUENCY 0 \"rf\" 2.5i i",
        "SWAP-PHASES 0 \"a\"",
        "SWAP-PHASES 0 \"a\" \"b\"",
        "FENCE -1",
        "RESET 0 1",
        "RESET -1",
        "LABEL",
        "LABEL @",
        "LABEL @1",
        "LABEL @a-",
        "LABEL @a-b",
        "LABEL @-b",
        "LABEL a",
        "JUMP",
        "JUMP a",
        "JUMP-WHEN @a",
        "JUMP-WHEN @a ro[",
        "JUMP-UNLESS @a 5",
        "INCLUDE",
        "INCLUDE foo",
        "INCLUDE \"",
        "INCLUDE \"\\",
        "INCLUDE \"\\\"",
        "INCLUDE \"a\\\\\"",
        "LOAD a b",
        "LOAD a b c d",
        "STORE a b",
        "STORE a b -",
        "STORE a b -c",
        "CONVERT a",
        "EXCHANGE a 1",
        "NEG 1",
        "NOT",
        "ADD ro",
        "ADD ro -",
        "ADD ro - -1",
        "ADD ro -ro",
        "ADD ro -1.5.5",
        "EQ a b",
        "EQ a b -",
        "EQ a 1 2",
        "DECLARE",
        "DECLARE ro",
        "DECLARE ro FOO",
        "DECLARE ro BIT[",
        "DECLARE ro BIT[]",
        "DECLARE ro BIT[1.5]",
        "DECLARE ro BIT SHARING",
        "DECLARE ro BIT SHARING x OFFSET",
        "DECLARE ro BIT SHARING x OFFSET 1",
        "DECLARE ro BIT SHARING x OFFSET 18446744073709551615 BIT",
        "DECLARE ro BIT SHARING x OFFSET -1 BIT",
        "DEFFRAME 0 \"rf\"",
        "DEFFRAME 0 \"rf\":",
        "DEFFRAME 0 \"rf\":\n",
        "DEFFRAME 0 \"rf\":\n    ",
        "DEFFRAME 0 \"rf\":\n    A",
        "DEFFRAME 0 \"rf\":\n    A:",
        "DEFFRAME 0 \"rf\":\n    A: -",
        "DEFFRAME 0 \"rf\":\n    A: 1\n    A: 2",
        "DEFWAVEFORM",
        "DEFWAVEFORM w:",
        "DEFWAVEFORM w:\n    ",
        "DEFWAVEFORM w:\n    1,",
        "DEFWAVEFORM w(%a,):\n    1",
        "DEFWAVEFORM w/x(%a):\n    1, -%a, 2i",
        "MEASURE",
        "MEASURE !",
        "MEASURE !x",
        "MEASURE !x 0 ro[0]",
        "MEASURE 0 -",
        "MEASURE 0 1",
        "CONTROLLED",
        "CONTROLLED DAGGER FORKED",
        "CONTROLLED 0",
        "DAGGER X",
        "X(",
        "X()",
        "X(,)",
        "X(1,)",
        "X(1 2) 0",
        "X 0 1 (2)",
        "\u{0}",
        "\u{feff}X 0",
        "X 0\u{a0}1",
        "X é",
        "# é\nX 0",
        "PRAGMA foo \"é😀\"",
        "INCLUDE \"é😀",
        "X 0 # comment é",
        "X 0\r\nY 1\r",
        "X 0\rY 1",
        "\tX 0",
        "    X 0",
        "X 0;;;Y 1",
        ";",
        ":",
        "!",
        "@",
        "%",
        "%1",
        "% a",
        "[",
        "]",
        "(",
        ")",
        ",",
        "\"",
        "\\",
        "^",
        "1",
        "1.5",
        "-",
        "--",
        "AS",
        "MATRIX",
        "mut",
        "BIT",
        "SHARING",
        "OFFSET",
        "PAULI-SUM",
        "PERMUTATION",
        "SEQUENCE",
        "WAIT 5",
        "HALT HALT",
        "NOP NOP X 0 Y 1",
        "X 0 Y 1",
        "X-",
        "X- 0",
        "X-Y 0",
        "X--Y 0",
        "-X 0",
        "_ 0",
        "_-_ 0",
    ];
    for c in cases {
        println!("{:50} => {}", format!("{c:?}"), prog(c));
    }
}

// ---------- child-process harness for aborts (stack overflow) ----------
fn child_input(kind: &str, depth: usize) -> String {
    match kind {
        "paren_expr" => format!("{}1{}", "(".repeat(depth), ")".repeat(depth)),
        "paren_prog" => format!("RX({}1{}) 0", "(".repeat(depth), ")".repeat(depth)),
        "func_prog" => format!("RX({}1{}) 0", "sin(".repeat(depth), ")".repeat(depth)),
        "infix_right" => format!("RX({}1) 0", "1^".repeat(depth)),
        "infix_left" | "infix_left_drop" => format!("RX(1{}) 0", "+1".repeat(depth)),
        "infix_left_display" => format!("RX(1{}) 0", "+1".repeat(depth)),
        "minus_paren" => format!("RX({}1{}) 0", "-(".repeat(depth), ")".repeat(depth)),
        "nested_defcal" => {
            let mut s = String::new();
            for _ in 0..depth { s.push_str("DEFCAL X 0:\n    "); }
            s.push_str("NOP");
            s
        }
        _ => panic!("unknown kind"),
    }
}

#[test]
fn zz_child() {
    let Ok(spec) = std::env::var("HUNT_CHILD") else { return };
    let (kind, depth) = spec.split_once(':').unwrap();
    let depth: usize = depth.parse().unwrap();
    let input = child_input(kind, depth);
    if kind == "paren_expr" {
        let r = Expression::from_str(&input);
        println!("CHILD-DONE ok={}", r.is_ok());
        std::mem::forget(r);
    } else if kind == "infix_left_drop" {
        let r = Program::from_str(&input);
        println!("CHILD-PARSED ok={}", r.is_ok());
        drop(r);
        println!("CHILD-DONE dropped");
    } else if kind == "infix_left_display" {
        let r = Program::from_str(&input).unwrap();
        println!("CHILD-PARSED");
        let t = r.to_quil().map(|s| s.len());
        println!("CHILD-DONE {t:?}");
        std::mem::forget(r);
    } else {
        let r = Program::from_str(&input);
        println!("CHILD-DONE ok={}", r.is_ok());
        std::mem::forget(r);
    }
}

fn run_child(kind: &str, depth: usize) -> (bool, String) {
    let exe = std::env::current_exe().unwrap();
    let out = std::process::Command::new(exe)
        .args(["--exact", "zz_child", "--nocapture", "--test-threads=1"])
        .env("HUNT_CHILD", format!("{kind}:{depth}"))
        .env("RUST_MIN_STACK", "8388608")
        .output()
        .unwrap();
    let so = String::from_utf8_lossy(&out.stdout).to_string();
    let se = String::from_utf8_lossy(&out.stderr).to_string();
    (out.status.success(), format!("status={:?} stdout={} stderr={}", out.status, so.lines().filter(|l| l.contains("CHILD")).collect::<Vec<_>>().join("|"), se.lines().filter(|l| l.contains("overflow")).collect::<Vec<_>>().join("|")))
}

#[test]
#[ignore = "exploration only: prints observed behaviour (run with --ignored --nocapture)"]
fn explore_deep() {
    for kind in ["paren_expr", "paren_prog", "func_prog", "minus_paren", "nested_defcal", "infix_left_drop"] {
        for depth in [500, 1000, 2000, 3000, 5000, 10_000, 20_000, 50_000, 100_000, 1_000_000] {
            let (ok, msg) = run_child(kind, depth);
            println!("{kind} depth={depth}: success={ok} {msg}");
        }
    }
}

#[test]
#[ignore = "exploration only: prints observed behaviour (run with --ignored --nocapture)"]
fn explore_names() {
    let cases = [
        "DECLARE Theta REAL\nRX(Theta) 0",
        "DECLARE Theta REAL[2]\nRX(Theta[1]) 0",
        "DECLARE Theta REAL\nRX(2*Theta + sin(Theta)) 0",
        "DECLARE Pi REAL\nRX(Pi) 0\nRX(Pi[0]) 0\nMOVE Pi 1.0",
        "DECLARE I REAL\nRX(I) 0\nRX(I[0]) 0",
        "DECLARE SIN REAL\nRX(SIN[0]) 0\nRX(SIN(1)) 0",
        "RX(SIN) 0",
        "RX(Sqrt2) 0\nRX(cisx) 0\nRX(COS(1)) 0\nRX(Exp(1)) 0\nRX(SQRT(2)) 0\nRX(CIS(2)) 0",
        "LABEL @Start\nJUMP @Start\nJUMP-WHEN @sTART ro[0]",
        "DEFFRAME 0 \"Rf_Frame\":\n    Sample-Rate: 1.0\n    INITIAL-frequency: 2.0",
        "PULSE 0 \"Rf\" Gaussian(Duration: 1, FWHM: 2)",
        "PULSE 0 q \"Rf\" Q20_q27_XY/sqrtiSWAP",
        "PULSE 0 \"Rf\" a / b",
        "DEFWAVEFORM My/Wave(%Amp):\n    %Amp, 2*%Amp",
        "DEFGATE MyGate(%Theta) AS MATRIX:\n    cos(%Theta), 0\n    0, 1",
        "DEFGATE MyGate P Q AS PAULI-SUM:\n    ZZ(1) P Q",
        "DEFGATE MyGate P Q AS SEQUENCE:\n    Hh P\n    CNot P Q",
        "DEFCIRCUIT MyCirc(%Alpha) Qa Qb:\n    RX(%Alpha) Qa\n    CNOT Qa Qb",
        "DEFCIRCUIT MyCirc(%Alpha) %Qa:\n    RX(%Alpha) %Qa",
        "DEFCAL MyGate(%Theta) Qq:\n    SHIFT-PHASE Qq \"Rf\" %Theta",
        "DEFCAL MEASURE Qq Dest:\n    CAPTURE Qq \"Ro\" Flat Dest",
        "PRAGMA My-Pragma Arg1 arg2 \"Data Here\"",
        "PRAGMA mIxEd_cAsE",
        "MEASURE Qq Ro[1]",
        "MEASURE !MidCircuit 0 Ro",
        "CALL MyFunc Ro Ro[1] 1",
        "LOAD Dst Src Off\nSTORE Dst Off Src\nCONVERT Aa Bb\nEXCHANGE Aa Bb\nNEG Aa\nEQ Aa Bb Cc",
        "DECLARE Aa BIT SHARING Bb OFFSET 1 BIT",
        "X Qq\nFENCE Qq Rr\nRESET Qq\nDELAY Qq \"Ff\" 1",
        "SWAP-PHASES 0 \"Aa\" 0 \"aA\"",
        "RAW-CAPTURE 0 \"Ro\" Dur Dest",
        "INCLUDE \"Some/File.quil\"",
        "RX(theta-1) 0",
        "RX(pi-1) 0",
        "RX(pi - 1) 0",
        "RX(Inf) 0\nRX(NaN) 0\nRX(inf) 0\nRX(nan) 0\nRX(infinity) 0",
        "RX(e) 0\nRX(E) 0\nRX(1e) 0",
        "DEFFRAME 0 \"a\\\"b\\\\c\":\n    X: 1",
        "DEFFRAME 0 \"a\\nb\":\n    X: 1",
        "DEFFRAME 0 \"\":\n    X: \"Str\\\\\"",
    ];
    for c in cases {
        println!("{:50}\n      => {}", format!("{c:?}"), prog(c));
    }
    for c in ["Theta", "Theta[1]", "Pi", "pI", "I", "Sin(Xx)", "sIN[0]", "%Theta", "Cis", "a/B", "A^b^C", "-A^2", "2I", "2 i", "1e3i", "0x10i", "(A", "A)", "", " ", "A B", "1 2", "A[1][2]", "A[ 1 ]", "A [1]", "A[-1]", "A[1.0]", "A[0x10]"] {
        let c2 = c.to_string();
        println!("EXPR {c:20} => {}", generic(move || Expression::from_str(&c2)));
    }
    for c in ["Ro", "Ro[1]", "ro[", "ro[]", "ro[1", "ro]", "ro[1] x", "ro[1][2]", "", "1", "ro[-1]", "ro[18446744073709551615]", "ro[18446744073709551616]", "ro [1]", "pi", "pi[0]", "%ro", "ro-1", "ro-[1]"] {
        let c2 = c.to_string();
        println!("MEMREF {c:20} => {}", generic(move || MemoryReference::from_str(&c2)));
    }
    for c in ["0 \"Rf\"", "0 1 \"Rf\"", "Q \"Rf\"", "%Q \"Rf\"", "\"Rf\"", "0", "0 \"Rf", "0 \"Rf\" x", "0 \"a\" \"b\"", "", "0 Rf", "-1 \"rf\"", "0 \"\\\"\"", "18446744073709551615 \"rf\"", "1.0 \"rf\""] {
        let c2 = c.to_string();
        println!("FRAME {c:20} => {}", generic(move || FrameIdentifier::from_str(&c2)));
    }
    for c in ["X 0", "X 0\nY 1", "", "# c", "DEFCAL X 0:\n    NOP\n    NOP", "DEFCAL X 0:\n    NOP\nNOP", "X 0;", ";X 0", "NONBLOCKING", "ADD ro +1"] {
        let c2 = c.to_string();
        println!("INSTR {c:20?} => {}", generic(move || Instruction::from_str(&c2)));
    }
}

// ---------------- C28 ----------------
use quil_rs::program::analysis::{BasicBlockTerminator, ControlFlowGraph};
use quil_rs::instruction::{Label, Target};

/// Returns Err(description) when the CFG of `src` violates C28.
fn check_cfg(src: &str) -> Result<(), String> {
    let program = Program::from_str(src).map_err(|e| format!("parse: {e}"))?;
    let body: Vec<Instruction> = program.body_instructions().cloned().collect();
    let cfg = ControlFlowGraph::from(&program);
    let dynamic = cfg.has_dynamic_control_flow();
    let blocks = cfg.into_blocks();
    // 1. reconstruction
    let mut rebuilt: Vec<Instruction> = vec![];
    for b in &blocks {
        if let Some(l) = b.label() {
            rebuilt.push(Instruction::Label(Label { target: l.clone() }));
        }
        rebuilt.extend(b.instructions().iter().map(|i| (*i).clone()));
        if let Some(t) = b.terminator().clone().into_instruction() {
            rebuilt.push(t);
        }
    }
    let body_no_include: Vec<Instruction> = body.iter().filter(|i| !matches!(i, Instruction::Include(_))).cloned().collect();
    if rebuilt != body_no_include {
        return Err(format!("reconstruction differs:\n rebuilt={rebuilt:?}\n body={body_no_include:?}"));
    }
    // 2. dynamic
    let expect_dynamic = body.iter().any(|i| matches!(i, Instruction::JumpWhen(_) | Instruction::JumpUnless(_)));
    if dynamic != expect_dynamic {
        return Err(format!("dynamic={dynamic} expected {expect_dynamic}"));
    }
    // 3. offsets: the block's elements are found at offset.. in the body
    for (bi, b) in blocks.iter().enumerate() {
        let off = b.instruction_index_offset();
        let mut elems: Vec<Instruction> = vec![];
        if let Some(l) = b.label() {
            elems.push(Instruction::Label(Label { target: l.clone() }));
        }
        elems.extend(b.instructions().iter().map(|i| (*i).clone()));
        if let Some(t) = b.terminator().clone().into_instruction() {
            elems.push(t);
        }
        for (k, e) in elems.iter().enumerate() {
            if body.get(off + k) != Some(e) {
                return Err(format!(
                    "block {bi}: offset {off}: element {k} is {:?} but body[{}] is {:?}",
                    e.to_quil_or_debug(), off + k, body.get(off + k).map(|i| i.to_quil_or_debug())
                ));
            }
        }
    }
    Ok(())
}

const CFG_OK_CASES: &[&str] = &[
    "",
    "X 0",
    "LABEL @a",
    "LABEL @a\nLABEL @b",
    "LABEL @a\nLABEL @b\nX 0",
    "X 0\nLABEL @a",
    "X 0\nLABEL @a\nY 0",
    "HALT",
    "HALT\nHALT",
    "JUMP @a\nLABEL @a",
    "JUMP @a\nJUMP @b\nJUMP-WHEN @a ro[0]\nJUMP-UNLESS @b ro[1]",
    "LABEL @a\nJUMP @a\nLABEL @b\nJUMP @b",
    "X 0\nY 0\nJUMP-WHEN @e ro[0]\nZ 0\nLABEL @e\nHALT\nX 1",
    "DECLARE ro BIT\nDEFCAL X 0:\n    NOP\nX 0\nLABEL @a\nMEASURE 0 ro\nJUMP-UNLESS @a ro\nLABEL @b\nLABEL @c\nHALT",
    "LABEL @a\nX 0\nLABEL @b\nHALT\nLABEL @c\nJUMP @a\nX 1\nLABEL @d",
    "PRAGMA foo\nWAIT\nNOP\nLABEL @x\nNOP",
];

#[test]
fn c28_ok_cases() {
    for c in CFG_OK_CASES {
        if let Err(e) = check_cfg(c) {
            panic!("C28 violated for {c:?}: {e}");
        }
    }
}

/// C28: an INCLUDE in the body is skipped by the CFG but is not counted in the offsets, so
/// `instruction_index_offset` of the following blocks (and the in-block indices) point at the wrong
/// body instruction.
#[test]
fn c28_include_shifts_offsets_between_blocks() {
    check_cfg("X 0\nINCLUDE \"lib.quil\"\nJUMP @a\nLABEL @a\nY 0").unwrap();
}

#[test]
fn c28_include_shifts_indices_within_block() {
    check_cfg("LABEL @a\nINCLUDE \"lib.quil\"\nY 0").unwrap();
}

#[test]
fn c28_include_first() {
    check_cfg("INCLUDE \"lib.quil\"\nY 0\nHALT\nZ 0").unwrap();
}

// ---------------- C23 / C24 ----------------
use quil_rs::instruction::{DefaultHandler, ExternSignatureMap, InstructionHandler};
use quil_rs::program::scheduling::{
    DependencyGraph, ExecutionDependency, MemoryAccessType, ScheduledGraphNode, ScheduledProgram,
};
use std::collections::{BTreeSet, HashMap, HashSet};

#[derive(Debug, Clone, Default)]
struct Info {
    reads: BTreeSet<String>,
    writes: BTreeSet<String>, // writes and captures
    pure_writes: BTreeSet<String>,
    captures: BTreeSet<String>,
    used: BTreeSet<String>,
    blocked: BTreeSet<String>,
    rf: bool,
    timed: bool,
    text: String,
}

fn reach(graph: &DependencyGraph, from: ScheduledGraphNode, to: ScheduledGraphNode, filter: &dyn Fn(&HashSet<ExecutionDependency>) -> bool) -> bool {
    let mut stack = vec![from];
    let mut seen = HashSet::new();
    while let Some(n) = stack.pop() {
        if n == to {
            return true;
        }
        if !seen.insert(n) {
            continue;
        }
        for (_, t, w) in graph.edges(n) {
            if filter(w) {
                stack.push(t);
            }
        }
    }
    false
}

/// Check C23 and C24 on every block of the program; returns a list of violations.
fn check_schedule(src: &str) -> Result<Vec<String>, String> {
    let program = Program::from_str(src).map_err(|e| format!("parse: {e}"))?;
    let sp = ScheduledProgram::from_program(&program, &DefaultHandler).map_err(|e| format!("schedule: {e}"))?;
    let mut violations = vec![];
    let h = DefaultHandler;
    let ext = ExternSignatureMap::default();
    for (bi, block) in sp.basic_blocks().iter().enumerate() {
        let graph = block.get_dependency_graph();
        let mut nodes: Vec<(ScheduledGraphNode, Instruction)> = block
            .instructions()
            .iter()
            .enumerate()
            .map(|(i, ins)| (ScheduledGraphNode::InstructionIndex(i), (*ins).clone()))
            .collect();
        if let Some(t) = block.terminator().clone().into_instruction() {
            nodes.push((ScheduledGraphNode::BlockEnd, t));
        }
        let infos: Vec<Info> = nodes
            .iter()
            .map(|(_, ins)| {
                let acc = h.memory_accesses(&ext, ins).unwrap();
                let mut info = Info::default();
                info.text = ins.to_quil_or_debug();
                info.reads = acc.reads.into_iter().collect();
                info.pure_writes = acc.writes.iter().cloned().collect();
                info.captures = acc.captures.iter().cloned().collect();
                info.writes = acc.writes.into_iter().chain(acc.captures).collect();
                info.rf = h.role(ins) == quil_rs::instruction::InstructionRole::RFControl;
                info.timed = h.is_scheduled(ins);
                if info.rf {
                    if let Some(m) = h.matching_frames(&program, ins) {
                        info.used = m.used.iter().map(|f| f.to_quil_or_debug()).collect();
                        info.blocked = m.blocked.iter().map(|f| f.to_quil_or_debug()).collect();
                    }
                }
                info
            })
            .collect();
        let index_of: HashMap<ScheduledGraphNode, usize> = nodes.iter().enumerate().map(|(k, (n, _))| (*n, k)).collect();
        let any = |_: &HashSet<ExecutionDependency>| true;
        let ordering = |w: &HashSet<ExecutionDependency>| w.contains(&ExecutionDependency::StableOrdering);
        let timed = |w: &HashSet<ExecutionDependency>| w.contains(&ExecutionDependency::Scheduled);
        for j in 0..nodes.len() {
            for i in 0..j {
                let (a, b) = (&infos[i], &infos[j]);
                // C23(a)
                let mem_conflict = a.writes.iter().any(|r| b.reads.contains(r) || b.writes.contains(r))
                    || b.writes.iter().any(|r| a.reads.contains(r));
                if mem_conflict && !reach(graph, nodes[i].0, nodes[j].0, &any) {
                    violations.push(format!("C23a block {bi}: `{}` (#{i}) and `{}` (#{j}) conflict on memory but are unordered", a.text, b.text));
                }
                // C24(a)
                let frame_conflict = a.used.iter().any(|f| b.used.contains(f) || b.blocked.contains(f))
                    || b.used.iter().any(|f| a.blocked.contains(f));
                if frame_conflict {
                    if !reach(graph, nodes[i].0, nodes[j].0, &ordering) {
                        violations.push(format!("C24a block {bi}: `{}` (#{i}) and `{}` (#{j}) conflict on a frame but no ordering path", a.text, b.text));
                    }
                    if a.timed && b.timed && !reach(graph, nodes[i].0, nodes[j].0, &timed) {
                        violations.push(format!("C24a block {bi}: `{}` (#{i}) and `{}` (#{j}) are timed and conflict on a frame but no timed path", a.text, b.text));
                    }
                }
            }
        }
        // edges
        for (u, v, w) in graph.all_edges() {
            if u == v {
                violations.push(format!("self edge on {u:?}"));
            }
            for dep in w {
                match dep {
                    ExecutionDependency::AwaitMemoryAccess(t) => {
                        let (Some(&i), Some(&j)) = (index_of.get(&u), index_of.get(&v)) else {
                            violations.push(format!("C23b block {bi}: memory edge touches a boundary {u:?}->{v:?}"));
                            continue;
                        };
                        let (a, b) = (&infos[i], &infos[j]);
                        let ok = i < j
                            && match t {
                                MemoryAccessType::Read => a.reads.iter().any(|r| b.writes.contains(r)),
                                MemoryAccessType::Write => a.pure_writes.iter().any(|r| b.reads.contains(r) || b.writes.contains(r)),
                                MemoryAccessType::Capture => a.captures.iter().any(|r| b.reads.contains(r) || b.writes.contains(r)),
                            };
                        if !ok {
                            violations.push(format!("C23b block {bi}: memory edge {t:?} `{}` -> `{}` is not a conflicting pair", a.text, b.text));
                        }
                    }
                    ExecutionDependency::StableOrdering | ExecutionDependency::Scheduled => {
                        let (Some(&i), Some(&j)) = (index_of.get(&u), index_of.get(&v)) else { continue };
                        let (a, b) = (&infos[i], &infos[j]);
                        if !(a.rf && b.rf) {
                            continue; // classical ordering edges or terminator
                        }
                        let frame_conflict = a.used.iter().any(|f| b.used.contains(f) || b.blocked.contains(f))
                            || b.used.iter().any(|f| a.blocked.contains(f));
                        if !(i < j && frame_conflict) {
                            violations.push(format!("C24b block {bi}: frame edge {dep:?} `{}` -> `{}` without a frame conflict", a.text, b.text));
                        }
                        if *dep == ExecutionDependency::Scheduled && !(a.timed && b.timed) {
                            violations.push(format!("C24b block {bi}: timed edge `{}` -> `{}` between untimed instructions", a.text, b.text));
                        }
                    }
                }
            }
        }
    }
    Ok(violations)
}

const SCHED_PRELUDE: &str = r#"DECLARE a REAL[4]
DECLARE b REAL[4]
DECLARE c INTEGER[4]
DECLARE d BIT[4]
DEFFRAME 0 "x":
    SAMPLE-RATE: 1.0
DEFFRAME 0 "y":
    SAMPLE-RATE: 1.0
DEFFRAME 1 "x":
    SAMPLE-RATE: 1.0
DEFFRAME 0 1 "z":
    SAMPLE-RATE: 1.0
DEFFRAME 2 "x":
    SAMPLE-RATE: 1.0
DEFFRAME 1 2 "z":
    SAMPLE-RATE: 1.0
"#;

const SCHED_POOL: &[&str] = &[
    "MOVE a 1.0", "MOVE a b", "MOVE c 1", "ADD a b", "ADD a 1.0", "SUB b a[1]", "NEG a", "NOT d", "EXCHANGE a b",
    "LOAD a b c", "STORE a c b", "STORE a c 1.0", "CONVERT a c", "CONVERT c d", "EQ d a b", "GT d c 1", "AND d c", "IOR d 1",
    "NOP", "PRAGMA foo", "MOVE d[1] 1", "MOVE a[2] a[3]",
    "PULSE 0 \"x\" w(p: a)", "PULSE 0 \"x\" w", "NONBLOCKING PULSE 0 \"x\" w(p: b)", "PULSE 1 \"x\" w", "PULSE 0 1 \"z\" w(q: c[1])",
    "NONBLOCKING PULSE 0 1 \"z\" w", "PULSE 2 \"x\" w", "PULSE 1 2 \"z\" w", "PULSE 0 \"missing\" w(p: a)",
    "CAPTURE 0 \"y\" w a", "CAPTURE 0 \"y\" w(p: a) b[1]", "NONBLOCKING CAPTURE 1 \"x\" w d", "RAW-CAPTURE 0 \"y\" 1.0 a", "RAW-CAPTURE 0 \"y\" a a",
    "NONBLOCKING RAW-CAPTURE 2 \"x\" b c",
    "SET-FREQUENCY 0 \"x\" a", "SET-PHASE 0 \"y\" 1.0", "SET-SCALE 1 \"x\" b[1]*2", "SHIFT-FREQUENCY 0 1 \"z\" a+b", "SHIFT-PHASE 2 \"x\" c",
    "SWAP-PHASES 0 \"x\" 0 \"y\"", "SWAP-PHASES 0 \"x\" 1 2 \"z\"",
    "DELAY 0 1.0", "DELAY 0 \"x\" a", "DELAY 0 1 1.0", "DELAY 0 \"x\" \"y\" 1.0", "DELAY 2 \"x\" b", "DELAY 3 1.0",
    "FENCE", "FENCE 0", "FENCE 1", "FENCE 0 1", "FENCE 2", "FENCE 3",
    "RESET", "RESET 0", "RESET 1", "RESET 2",
];
const SCHED_TERMINATORS: &[&str] = &["", "HALT", "JUMP @l", "JUMP-WHEN @l d", "JUMP-UNLESS @l d[1]", "JUMP-WHEN @l a"];

#[test]
fn c23_c24_random_blocks() {
    use rand::{rngs::StdRng, Rng, SeedableRng};
    let mut rng = StdRng::seed_from_u64(0xC23C24);
    let mut all = vec![];
    for round in 0..1500 {
        let n = rng.gen_range(0..9);
        let mut src = String::from(SCHED_PRELUDE);
        for _ in 0..n {
            src.push_str(SCHED_POOL[rng.gen_range(0..SCHED_POOL.len())]);
            src.push('\n');
        }
        src.push_str(SCHED_TERMINATORS[rng.gen_range(0..SCHED_TERMINATORS.len())]);
        src.push('\n');
        match check_schedule(&src) {
            Ok(v) if v.is_empty() => {}
            Ok(v) => {
                all.push(format!("round {round}:\n{}\n{}", &src[SCHED_PRELUDE.len()..], v.join("\n")));
            }
            Err(e) => panic!("round {round}: {e}\n{src}"),
        }
    }
    assert!(all.is_empty(), "{} failing rounds; first:\n{}", all.len(), all[..all.len().min(3)].join("\n----\n"));
}

// ---------------- C01 fuzz ----------------
const VOCAB: &[&str] = &[
    "X", "RX", "CNOT", "ro", "theta", "pi", "i", "sin", "cos", "cis", "exp", "sqrt", "q", "a-b", "_", "w", "flat",
    "0", "1", "2", "17", "0x", "0x1f", "0b", "0b101", "0o7", "1.5", ".5", "5.", "1e5", "1e", "1e-", "1e400", "1_0", "1__", "._1",
    "18446744073709551615", "18446744073709551616", "9223372036854775808", "-", "+", "*", "/", "^", "(", ")", "[", "]", ",", ":", ";", "!",
    "@a", "@", "%a", "%", "\"rf\"", "\"", "\"a\\\"", "\\", "#c", "\n", "\n    ", "    ", "\t", "\r\n", " ", " ", " ", " ",
    "ADD", "AND", "ASHR", "CALL", "CAPTURE", "CONVERT", "DECLARE", "DEFCAL", "DEFCIRCUIT", "DEFFRAME", "DEFGATE", "DEFWAVEFORM",
    "DELAY", "DIV", "EQ", "EXCHANGE", "FENCE", "GE", "GT", "HALT", "INCLUDE", "IOR", "JUMP", "JUMP-UNLESS", "JUMP-WHEN", "LABEL",
    "LE", "LOAD", "LT", "MEASURE", "MOVE", "MUL", "NEG", "NOP", "NOT", "PRAGMA", "PULSE", "RAW-CAPTURE", "RESET", "SET-FREQUENCY",
    "SET-PHASE", "SET-SCALE", "SHIFT-FREQUENCY", "SHIFT-PHASE", "SHL", "SHR", "STORE", "SUB", "SWAP-PHASES", "WAIT", "XOR",
    "AS", "MATRIX", "mut", "NONBLOCKING", "OFFSET", "PAULI-SUM", "PERMUTATION", "SEQUENCE", "SHARING", "BIT", "OCTET", "REAL", "INTEGER",
    "CONTROLLED", "DAGGER", "FORKED", "EXTERN", "é", "\u{0}", "XYZ", "ZZ", "I",
];

#[test]
fn c01_fuzz_token_soup() {
    use rand::{rngs::StdRng, Rng, SeedableRng};
    let mut rng = StdRng::seed_from_u64(1);
    let prev = (); // (panic hook left alone so that parallel tests keep their messages)
    
    let mut panics: Vec<(String, String)> = vec![];
    for _ in 0..150_000 {
        let n = rng.gen_range(1..14);
        let mut s = String::new();
        for _ in 0..n {
            s.push_str(VOCAB[rng.gen_range(0..VOCAB.len())]);
            if rng.gen_bool(0.6) {
                s.push(' ');
            }
        }
        let s2 = s.clone();
        let r = catch_unwind(move || {
            let _ = Program::from_str(&s2);
            let _ = Instruction::from_str(&s2);
            let _ = Expression::from_str(&s2);
            let _ = MemoryReference::from_str(&s2);
            let _ = FrameIdentifier::from_str(&s2);
            let _ = quil_rs::instruction::ExternSignature::from_str(&s2);
        });
        if let Err(e) = r {
            let msg = e.downcast_ref::<String>().cloned().or_else(|| e.downcast_ref::<&str>().map(|s| s.to_string())).unwrap_or_default();
            if !msg.contains("digit_separator") { // known: see c01_dot_underscore_then_20_digits_panics
                panics.push((s, msg));
            }
        }
    }
    let _ = prev;
    panics.sort_by_key(|(s, _)| s.len());
    let distinct: BTreeSet<&String> = panics.iter().map(|(_, m)| m).collect();
    println!("DISTINCT PANIC MESSAGES: {distinct:?}");
    assert!(panics.is_empty(), "{} panics; shortest: {:?}", panics.len(), &panics[..panics.len().min(5)]);
}

#[test]
fn c01_fuzz_bytes() {
    use rand::{rngs::StdRng, Rng, SeedableRng};
    let mut rng = StdRng::seed_from_u64(2);
    let prev = (); // (panic hook left alone so that parallel tests keep their messages)
    
    let alphabet: Vec<char> = "XRro019._-+*/^()[],:;!@%\"\\# \n\teExXbBoOiIpé\u{0}\u{2028}😀".chars().collect();
    let mut panics: Vec<(String, String)> = vec![];
    for _ in 0..150_000 {
        let n = rng.gen_range(1..12);
        let s: String = (0..n).map(|_| alphabet[rng.gen_range(0..alphabet.len())]).collect();
        let s2 = s.clone();
        let r = catch_unwind(move || {
            let _ = Program::from_str(&s2);
            let _ = Expression::from_str(&s2);
            let _ = MemoryReference::from_str(&s2);
            let _ = FrameIdentifier::from_str(&s2);
        });
        if let Err(e) = r {
            let msg = e.downcast_ref::<String>().cloned().or_else(|| e.downcast_ref::<&str>().map(|s| s.to_string())).unwrap_or_default();
            panics.push((s, msg));
        }
    }
    let _ = prev;
    panics.sort_by_key(|(s, _)| s.len());
    assert!(panics.is_empty(), "{} panics; shortest: {:?}", panics.len(), &panics[..panics.len().min(5)]);
}

fn move_literal(text: &str) -> String {
    let src = format!("MOVE ro {text}");
    match catch_unwind(move || Program::from_str(&src)) {
        Err(e) => format!("PANIC: {}", e.downcast_ref::<String>().cloned().or_else(|| e.downcast_ref::<&str>().map(|s| s.to_string())).unwrap_or_default()),
        Ok(Ok(p)) => {
            let v: Vec<String> = p.body_instructions().map(|i| format!("{i:?}")).collect();
            let s = v.join("; ");
            s.replace("Move(Move { destination: MemoryReference { name: \"ro\", index: 0 }, source: ", "MOVE(")
        }
        Ok(Err(e)) => format!("ERR {}", format!("{e}").chars().take(60).collect::<String>()),
    }
}

#[test]
#[ignore = "exploration only: prints observed behaviour (run with --ignored --nocapture)"]
fn explore_separator_many_digits() {
    let prev = (); // (panic hook left alone so that parallel tests keep their messages)
    
    for t in [
        "._118446744073709551615",
        "._1",
        "._12345678901234567890",
        "0._12345678901234567890",
        "0.1_2345678901234567890",
        "0.12345678901234567890_1",
        "0.1234567890123456789_01",
        "0.123456789012345678_901",
        "1_2345678901234567890.5",
        "1_234567890123456789.5",
        "12345678901234567_89.5",
        "1.2345678901234567890_1e5",
        "1.23456789012345678901e1_0",
        "0.000000000000000000000_1",
        "0.1_000000000000000000000000000001",
        "1_0.1_000000000000000000000000000001e1_0",
        "9007199254740993_.0",
        "9_007_199_254_740_993.0",
        "0.3_0000000000000000000000000000000000000000000000000000000000000000000000000000001",
        "1_7976931348623157e292",
        "2.2250738585072011e-3_08",
        "1__2_.3__4_e_5__6_",
        "8.98846567431158e3_07",
        "123456789012345678901234567890_123.0",
        "123456789012345678901234567890_123e0",
    ] {
        let stripped: String = t.chars().filter(|c| *c != '_').collect();
        println!("{t:60} => {:50} (rust: {:?})", move_literal(t), stripped.parse::<f64>());
    }
    let _ = prev;
}

#[test]
#[ignore = "exploration only: prints observed behaviour (run with --ignored --nocapture)"]
fn explore_number_fuzz() {
    use rand::{rngs::StdRng, Rng, SeedableRng};
    let mut rng = StdRng::seed_from_u64(5);
    let prev = (); // (panic hook left alone so that parallel tests keep their messages)
    
    let pieces: &[&str] = &["0", "1", "2", "7", "9", "5", "_", "__", ".", "e", "E", "e-", "e+", "0x", "0b", "0o", "0X", "f", "a", "12345678901234567890", "000000000000000000000", "99999999999999999999", "18446744073709551615", "308", "324", "-"];
    let mut seen_panic = std::collections::BTreeSet::new();
    let mut mismatches = vec![];
    for _ in 0..300_000 {
        let n = rng.gen_range(1..8);
        let t: String = (0..n).map(|_| pieces[rng.gen_range(0..pieces.len())]).collect();
        let out = move_literal(&t);
        if out.starts_with("PANIC") {
            if seen_panic.len() < 15 { seen_panic.insert((t.len(), t.clone())); }
            continue;
        }
        if out.starts_with("ERR") || out.contains(';') { continue; }
        // single MOVE
        let (neg, body) = match t.strip_prefix('-') { Some(b) => (true, b), None => (false, t.as_str()) };
        let stripped: String = body.chars().filter(|c| *c != '_').collect();
        let lower = stripped.to_lowercase();
        if let Some(v) = out.strip_prefix("MOVE(LiteralReal(").and_then(|s| s.strip_suffix(") })")) {
            let got: f64 = v.parse().unwrap();
            let want: Result<f64, _> = stripped.parse::<f64>();
            let want = want.map(|w| if neg { -w } else { w });
            if want.as_ref().ok().map(|w| w.to_bits()) != Some(got.to_bits()) {
                mismatches.push(format!("{t} => {got:?}, expected {want:?}"));
            }
        } else if let Some(v) = out.strip_prefix("MOVE(LiteralInteger(").and_then(|s| s.strip_suffix(") })")) {
            let got: i128 = v.parse().unwrap();
            let want = if let Some(h) = lower.strip_prefix("0x") { i128::from_str_radix(h, 16) }
                else if let Some(h) = lower.strip_prefix("0b") { i128::from_str_radix(h, 2) }
                else if let Some(h) = lower.strip_prefix("0o") { i128::from_str_radix(h, 8) }
                else { lower.parse::<i128>() };
            let want = want.map(|w| if neg { -w } else { w });
            if want.as_ref().ok() != Some(&got) {
                mismatches.push(format!("{t} => {got:?}, expected {want:?}"));
            }
        } else if !out.contains("MemoryReference") {
            mismatches.push(format!("{t} => unexpected {out}"));
        }
    }
    let _ = prev;
    mismatches.retain(|m| !m.contains("kind: Empty"));
    println!("PANICS: {seen_panic:?}");
    mismatches.sort();
    mismatches.dedup();
    mismatches.sort_by_key(|s| s.len());
    println!("MISMATCHES ({}): {:#?}", mismatches.len(), &mismatches[..mismatches.len().min(150)]);
}

#[test]
#[ignore = "exploration only: prints observed behaviour (run with --ignored --nocapture)"]
fn explore_panic_threshold() {
    let prev = (); // (panic hook left alone so that parallel tests keep their messages)
    
    for n in 1..25 {
        let digits: String = "1234567890123456789012345".chars().take(n).collect();
        let t = format!("0._{digits}");
        println!("{n:2} {t:30} => {}", move_literal(&t));
    }
    for t in ["1._12345678901234567890", "._12345678901234567890e5", "0._1234567890123456789", "0._00000000000000000001", "0.__12345678901234567890", "0._1_2345678901234567890", "12345678901234567890._1", "1._1e12345678901234567890"] {
        println!("{t:30} => {}", move_literal(t));
    }
    for src in ["RX(0._12345678901234567890) 0", "PRAGMA foo ._12345678901234567890", "# 0._12345678901234567890", "PRAGMA foo \"0._12345678901234567890\""] {
        println!("{src:30} => {}", prog(src).chars().take(150).collect::<String>());
    }
    let e = generic(|| Expression::from_str("0._12345678901234567890"));
    println!("Expression::from_str => {e}");
    let _ = prev;
}

#[test]
fn c01_fuzz_structured() {
    use rand::{rngs::StdRng, Rng, SeedableRng};
    let mut rng = StdRng::seed_from_u64(77);
    let prev = (); // (panic hook left alone so that parallel tests keep their messages)
    
    let heads: &[&str] = &[
        "DEFGATE G", "DEFGATE G(%a)", "DEFGATE G a b AS PAULI-SUM:", "DEFGATE G a b AS SEQUENCE:", "DEFGATE G AS PERMUTATION:", "DEFGATE G AS MATRIX:",
        "DEFCAL G 0:", "DEFCAL G(%a) q:", "DEFCAL MEASURE 0 addr:", "DEFCAL MEASURE !n q:", "DEFCIRCUIT C(%a) q:", "DEFFRAME 0 \"f\":", "DEFWAVEFORM w(%a):",
        "PRAGMA EXTERN f", "CALL f", "DECLARE r REAL[2] SHARING", "DELAY", "PULSE 0 \"f\"", "CAPTURE 0 \"f\"", "RAW-CAPTURE 0 \"f\"", "MEASURE", "NONBLOCKING",
        "SET-PHASE 0 \"f\"", "RX(", "CONTROLLED DAGGER FORKED RX(1,2)", "LOAD", "STORE", "EQ", "MOVE", "FENCE", "RESET", "SWAP-PHASES", "JUMP-WHEN", "LABEL", "INCLUDE",
    ];
    let mut panics: Vec<(String, String)> = vec![];
    for _ in 0..120_000 {
        let mut s = String::from(heads[rng.gen_range(0..heads.len())]);
        let n = rng.gen_range(0..12);
        for _ in 0..n {
            s.push(' ');
            s.push_str(VOCAB[rng.gen_range(0..VOCAB.len())]);
        }
        let s2 = s.clone();
        let r = catch_unwind(move || {
            let _ = Program::from_str(&s2);
        });
        if let Err(e) = r {
            let msg = e.downcast_ref::<String>().cloned().or_else(|| e.downcast_ref::<&str>().map(|s| s.to_string())).unwrap_or_default();
            if !msg.contains("digit_separator") {
                panics.push((s, msg));
            }
        }
    }
    let _ = prev;
    panics.sort_by_key(|(s, _)| s.len());
    assert!(panics.is_empty(), "{} panics; shortest: {:?}", panics.len(), &panics[..panics.len().min(5)]);
}

// ---------------- C30 ----------------
use quil_rs::program::type_check::type_check;

const TC_DECLS: &str = "DECLARE r REAL[2]\nDECLARE s REAL\nDECLARE n INTEGER[2]\nDECLARE m INTEGER\nDECLARE b BIT[2]\nDECLARE c BIT\nDECLARE o OCTET[2]\nDECLARE p OCTET\n";

fn tc(body: &str) -> bool {
    let p = Program::from_str(&format!("{TC_DECLS}{body}")).unwrap_or_else(|e| panic!("parse {body:?}: {e}"));
    type_check(&p).is_ok()
}

/// own oracle for SET-*/SHIFT-* expressions
fn expr_is_real(e: &Expression, types: &HashMap<&str, &str>) -> bool {
    match e {
        Expression::Address(m) => types.get(m.name.as_str()) == Some(&"REAL"),
        Expression::FunctionCall(f) => expr_is_real(&f.expression, types),
        Expression::Infix(i) => expr_is_real(&i.left, types) && expr_is_real(&i.right, types),
        Expression::Number(c) => c.im == 0.0,
        Expression::PiConstant() => true,
        Expression::Prefix(p) => expr_is_real(&p.expression, types),
        Expression::Variable(_) => false,
    }
}

#[test]
fn c30_set_shift_random_expressions() {
    use rand::{rngs::StdRng, Rng, SeedableRng};
    let mut rng = StdRng::seed_from_u64(30);
    let types: HashMap<&str, &str> = [("r", "REAL"), ("s", "REAL"), ("n", "INTEGER"), ("m", "INTEGER"), ("b", "BIT"), ("c", "BIT"), ("o", "OCTET"), ("p", "OCTET")].into();
    fn gen(rng: &mut StdRng, depth: usize) -> String {
        let leaves = ["r", "r[1]", "s", "n", "m[0]", "b", "c", "o[1]", "p", "undeclared", "und[3]", "1", "2.5", "pi", "i", "2i", "0.0i", "%v", "1e-3", "0x10"];
        if depth == 0 || rng.gen_bool(0.3) {
            return leaves[rng.gen_range(0..leaves.len())].to_string();
        }
        match rng.gen_range(0..4) {
            0 => format!("({} {} {})", gen(rng, depth - 1), ["+", "-", "*", "/", "^"][rng.gen_range(0..5)], gen(rng, depth - 1)),
            1 => format!("{}({})", ["sin", "cos", "sqrt", "exp", "cis"][rng.gen_range(0..5)], gen(rng, depth - 1)),
            2 => format!("(- {})", gen(rng, depth - 1)),
            _ => format!("({})", gen(rng, depth - 1)),
        }
    }
    let cmds = ["SET-FREQUENCY", "SET-PHASE", "SET-SCALE", "SHIFT-FREQUENCY", "SHIFT-PHASE"];
    let mut bad = vec![];
    for _ in 0..20_000 {
        let e = gen(&mut rng, 4);
        let cmd = cmds[rng.gen_range(0..cmds.len())];
        let body = format!("{cmd} 0 \"rf\" {e}");
        let parsed = Expression::from_str(&e).unwrap_or_else(|err| panic!("cannot parse {e:?}: {err}"));
        let want = expr_is_real(&parsed, &types);
        let got = tc(&body);
        if got != want {
            bad.push(format!("{body}: type_check={got}, oracle={want}"));
        }
    }
    bad.sort_by_key(|s| s.len());
    assert!(bad.is_empty(), "{} mismatches, e.g. {:#?}", bad.len(), &bad[..bad.len().min(8)]);
}

const TC_INSTRS: &[&str] = &[
    "MOVE r 1.0", "MOVE r 1", "MOVE n 1", "MOVE n 1.0", "MOVE b 1", "MOVE b 1.0", "MOVE o 1", "MOVE r s", "MOVE r n", "MOVE n m", "MOVE b c", "MOVE o b", "MOVE r und", "MOVE und r",
    "ADD r 1.0", "ADD r 1", "ADD n 1", "ADD n 1.0", "ADD b 1", "ADD o 1", "ADD r s", "ADD r n", "ADD n m", "ADD b c", "ADD n b", "ADD r und", "SUB und 1", "MUL n m", "DIV r s",
    "NEG r", "NEG n", "NEG b", "NEG o", "NOT r", "NOT n", "NOT b", "NOT o", "NOT und",
    "AND n m", "AND b c", "AND r s", "AND n r", "AND n 1", "IOR r 1", "XOR o p", "SHL n 1", "SHR b n", "ASHR n und",
    "EQ c r s", "EQ c n m", "EQ c r n", "EQ c r 1", "EQ c r 1.0", "EQ c n 1", "EQ c n 1.0", "EQ n r s", "EQ r r s", "EQ c b c", "GT c o 1", "LT c und 1", "GE und r s", "LE c r und",
    "EXCHANGE r s", "EXCHANGE r n", "EXCHANGE b c", "EXCHANGE r und", "EXCHANGE und r",
    "LOAD r s n", "LOAD r s r", "LOAD r n m", "LOAD n m n", "LOAD b c m", "LOAD r und n", "LOAD und r n", "LOAD r s und", "LOAD r s b",
    "STORE r n s", "STORE r n 1.0", "STORE r n 1", "STORE n m 1", "STORE n m 1.0", "STORE b n 1", "STORE o n 1", "STORE o n 1.0", "STORE r r s", "STORE r n n", "STORE und n 1", "STORE r und 1.0", "STORE r n und", "STORE b n c", "STORE b n o",
    "CONVERT r n", "CONVERT und und2", "X 0", "RX(und) 0", "RX(%v) 0", "MEASURE 0 und", "MEASURE 0 r", "JUMP-WHEN @l und", "LABEL @l", "PULSE 0 \"rf\" w(a: und, b: %v)",
    "CAPTURE 0 \"rf\" w und", "RAW-CAPTURE 0 \"rf\" und und", "DELAY 0 \"rf\" und", "SET-PHASE 0 \"rf\" r", "SET-PHASE 0 \"rf\" n", "SHIFT-PHASE 0 \"rf\" sin(r[1])+pi", "SET-SCALE 0 \"rf\" %v",
    "SET-FREQUENCY 0 \"rf\" und", "SHIFT-FREQUENCY 0 \"rf\" 2i", "NOP", "HALT", "WAIT", "PRAGMA foo", "FENCE", "RESET",
];

#[test]
fn c30_per_instruction_and_invariance() {
    use rand::{rngs::StdRng, seq::SliceRandom, Rng, SeedableRng};
    let mut rng = StdRng::seed_from_u64(3030);
    let single: HashMap<&str, bool> = TC_INSTRS.iter().map(|i| (*i, tc(i))).collect();
    println!("single verdicts: rejected = {:?}", TC_INSTRS.iter().filter(|i| !single[*i]).collect::<Vec<_>>());
    for _ in 0..3000 {
        let n = rng.gen_range(0..7);
        let mut body: Vec<&str> = (0..n).map(|_| *TC_INSTRS.choose(&mut rng).unwrap()).collect();
        let want = body.iter().all(|i| single[i]);
        let got = tc(&body.join("\n"));
        assert_eq!(got, want, "per-instruction: {body:?}");
        // reorder / duplicate
        body.shuffle(&mut rng);
        if !body.is_empty() {
            let d = body[rng.gen_range(0..body.len())];
            body.push(d);
        }
        assert_eq!(tc(&body.join("\n")), want, "reorder/dup: {body:?}");
        // rename consistently (whole-word textual rename over declarations and body)
        let text = format!("{TC_DECLS}{}", body.join("\n"));
        let renamed = rename(&text);
        let p = Program::from_str(&renamed).unwrap();
        assert_eq!(type_check(&p).is_ok(), want, "rename: {renamed}");
    }
}

fn rename(text: &str) -> String {
    // rename identifiers r,s,n,m,b,c,o,p,und,und2 -> Zr_,... as whole words, not inside strings or keywords
    let names = ["r", "s", "n", "m", "b", "c", "o", "p", "und", "und2"];
    let mut out = String::new();
    let mut word = String::new();
    let mut in_str = false;
    let flush = |word: &mut String, out: &mut String| {
        if names.contains(&word.as_str()) {
            out.push_str(&format!("Q{}_x", word.to_uppercase()));
        } else {
            out.push_str(word);
        }
        word.clear();
    };
    for ch in text.chars() {
        if in_str {
            out.push(ch);
            if ch == '"' { in_str = false; }
            continue;
        }
        if ch.is_ascii_alphanumeric() || ch == '_' || ch == '-' || ch == '%' || ch == '@' {
            word.push(ch);
        } else {
            flush(&mut word, &mut out);
            if ch == '"' { in_str = true; }
            out.push(ch);
        }
    }
    flush(&mut word, &mut out);
    out
}

#[test]
#[ignore = "exploration only: prints observed behaviour (run with --ignored --nocapture)"]
fn explore_exponents() {
    let prev = (); // (panic hook left alone so that parallel tests keep their messages)
    
    for t in ["1e99999999999999999999", "1e-99999999999999999999", "0e99999999999999999999", "0.0e99999999999999999999", "0e400", "0.0e-400", "1e18446744073709551616", "1e9223372036854775808", "1e-9223372036854775809",
        "0.00000000000000000000000000000000000000000000000001e60", "100000000000000000000000000000e-20", "1e2147483648", "1e-2147483649", "1e4294967296", "1e4294967297",
        "0.1e1", "1e00000000000000000000000000000000000000001", "4.9e-324", "2.4703282292062327e-324", "2.4703282292062328e-324", "1.7976931348623158e308", "179769313486231580793728971405303415079934132710037826936173778980444968292764750946649017977587207096330286416692887910946555547851940402630657488671505820681908902000708383676273854845817711531764475730270069855571366959622842914819860834936475292719074168444365510704342711559699508093042880177904174497791.9999999999999999999999"] {
        let stripped: String = t.chars().filter(|c| *c != '_').collect();
        println!("{:60} => {:50} (rust: {:?})", &t[..t.len().min(58)], move_literal(t), stripped.parse::<f64>());
    }
    let _ = prev;
}

// =====================================================================================
//                                   FINAL TESTS
// =====================================================================================

fn panic_message(e: Box<dyn std::any::Any + Send>) -> String {
    e.downcast_ref::<String>().cloned().or_else(|| e.downcast_ref::<&str>().map(|s| s.to_string())).unwrap_or_default()
}

fn quiet<T>(f: impl FnOnce() -> T) -> T {
    let prev = (); // (panic hook left alone so that parallel tests keep their messages)
    
    let r = f();
    let _ = prev;
    r
}

// ---------------- C01 (confirmed) ----------------

/// C01: `(((( ... 1 ... ))))` with 100 000 levels (a 200 kB input) overflows the stack inside the
/// recursive-descent expression parser and aborts the whole process (SIGABRT), both in debug
/// (from ~2 000 levels) and in release builds (from ~50 000 levels) on an 8 MiB stack.
#[test]
fn c01_deeply_nested_parentheses_abort_the_process() {
    for kind in ["paren_prog", "paren_expr", "func_prog"] {
        let (ok, msg) = run_child(kind, 100_000);
        assert!(ok, "parsing {kind} with 100000 nesting levels killed the child process: {msg}");
    }
}

/// C01: the same through nested DEFCAL bodies (`DEFCAL X 0:\n    DEFCAL X 0:\n    ... NOP`).
#[test]
fn c01_deeply_nested_defcal_aborts_the_process() {
    let (ok, msg) = run_child("nested_defcal", 20_000);
    assert!(ok, "parsing 20000 nested DEFCALs killed the child process: {msg}");
}

/// C01: `._` followed by 20 or more digits panics inside the lexer (an assertion of the `lexical`
/// number parser, reached from `lex_and_parse_number` before the `._` workaround can run).  This
/// needs debug assertions (the default `dev`/`test` profiles); a release build does not panic.
#[test]
fn c01_dot_underscore_then_20_digits_panics() {
    let inputs = [
        "MOVE ro 0._12345678901234567890",
        "MOVE ro ._12345678901234567890",
        "RX(1._00000000000000000000) 0",
        "PRAGMA foo ._12345678901234567890",
    ];
    let mut failures = vec![];
    quiet(|| {
        for input in inputs {
            if let Err(e) = catch_unwind(|| Program::from_str(input).map(|_| ())) {
                failures.push(format!("Program::from_str({input:?}) panicked: {}", panic_message(e)));
            }
        }
        if let Err(e) = catch_unwind(|| Expression::from_str("0._12345678901234567890").map(|_| ())) {
            failures.push(format!("Expression::from_str panicked: {}", panic_message(e)));
        }
        if let Err(e) = catch_unwind(|| Instruction::from_str("MOVE ro 0._12345678901234567890").map(|_| ())) {
            failures.push(format!("Instruction::from_str panicked: {}", panic_message(e)));
        }
    });
    assert!(failures.is_empty(), "{failures:#?}");
}

// ---------------- C05 (confirmed) ----------------

/// C05: a radix prefix followed only by digit separators (`0x_`, `0b__`, `0o_`) has no digits and
/// therefore no value, and the lexer rejects the bare prefix `0x`; but `0x_` is accepted as 0.
#[test]
fn c05_radix_prefix_with_only_separators_is_accepted_as_zero() {
    let mut accepted = vec![];
    for lit in ["0x_", "0X__", "0b_", "0B___", "0o_", "0O__"] {
        for src in [format!("MOVE ro {lit}"), format!("X {lit}"), format!("DECLARE ro BIT[{lit}]"), format!("RX({lit}) 0"), format!("MEASURE 0 ro[{lit}]")] {
            if let Ok(p) = Program::from_str(&src) {
                accepted.push(format!("{src:?} parsed as {:?}", p.to_instructions()));
            }
        }
    }
    // sanity: the bare prefixes are rejected
    for lit in ["0x", "0b", "0o"] {
        assert!(Program::from_str(&format!("MOVE ro {lit}")).is_err());
    }
    assert!(accepted.is_empty(), "digit-less literals were accepted:\n{}", accepted.join("\n"));
}

// ---------------- borderline ----------------

/// Borderline C05: a literal directly followed by further digits/letters is silently split into
/// several tokens instead of being rejected: `X 0b12` applies X to qubits 1 and 2, `MOVE ro 12abc`
/// is `MOVE ro 12` followed by a gate `abc`, `MOVE ro 0b1e5` is `MOVE ro 1` and a gate `e5`.
#[test]
fn borderline_c05_literal_followed_by_alphanumerics_is_split() {
    let mut accepted = vec![];
    for src in ["X 0b12", "X 0o18", "MOVE ro 12abc", "MOVE ro 0b1e5", "MOVE ro 1e0x1", "MOVE ro 1._5", "DELAY 0 1.5s"] {
        if let Ok(p) = Program::from_str(src) {
            accepted.push(format!("{src:?} parsed as {:?}", p.to_instructions().iter().map(|i| i.to_quil_or_debug()).collect::<Vec<_>>()));
        }
    }
    assert!(accepted.is_empty(), "{}", accepted.join("\n"));
}

/// Borderline C30: a number with a non-zero imaginary part below f64::EPSILON is accepted as real.
#[test]
fn borderline_c30_tiny_imaginary_number_accepted_as_real() {
    assert!(!tc("SET-PHASE 0 \"rf\" 1.0e-17i"), "SET-PHASE with the imaginary number 1e-17i type-checks");
}

/// Borderline C01: parsing `RX(1+1+1+...+1) 0` with 10^6 terms succeeds, but dropping (or printing)
/// the parsed program overflows the stack and aborts the process.
#[test]
fn borderline_c01_dropping_a_parsed_long_sum_aborts_the_process() {
    let (ok, msg) = run_child("infix_left_drop", 1_000_000);
    assert!(ok, "{msg}");
}

// ---------------- C05 (behaves correctly) ----------------

#[test]
fn c05_literal_values_match_oracle() {
    use rand::{rngs::StdRng, Rng, SeedableRng};
    let mut rng = StdRng::seed_from_u64(5);
    let pieces: &[&str] = &["0", "1", "2", "7", "9", "5", "_", "__", ".", "e", "E", "e-", "e+", "0x", "0b", "0o", "0X", "f", "a", "12345678901234567890", "000000000000000000000", "99999999999999999999", "18446744073709551615", "308", "324", "-"];
    let mut mismatches = vec![];
    quiet(|| {
        for _ in 0..100_000 {
            let n = rng.gen_range(1..8);
            let t: String = (0..n).map(|_| pieces[rng.gen_range(0..pieces.len())]).collect();
            let out = move_literal(&t);
            if out.starts_with("PANIC") || out.starts_with("ERR") || out.contains(';') || out.contains("MemoryReference") {
                continue;
            }
            let (neg, body) = match t.strip_prefix('-') { Some(b) => (true, b), None => (false, t.as_str()) };
            let stripped: String = body.chars().filter(|c| *c != '_').collect();
            let lower = stripped.to_lowercase();
            if let Some(v) = out.strip_prefix("MOVE(LiteralReal(").and_then(|s| s.strip_suffix(") })")) {
                let got: f64 = v.parse().unwrap();
                let want = stripped.parse::<f64>().map(|w| if neg { -w } else { w });
                if want.as_ref().ok().map(|w| w.to_bits()) != Some(got.to_bits()) {
                    mismatches.push(format!("{t} => {got:?}, expected {want:?}"));
                }
            } else if let Some(v) = out.strip_prefix("MOVE(LiteralInteger(").and_then(|s| s.strip_suffix(") })")) {
                let got: i128 = v.parse().unwrap();
                let want = if let Some(h) = lower.strip_prefix("0x") { i128::from_str_radix(h, 16) }
                    else if let Some(h) = lower.strip_prefix("0b") { i128::from_str_radix(h, 2) }
                    else if let Some(h) = lower.strip_prefix("0o") { i128::from_str_radix(h, 8) }
                    else { lower.parse::<i128>() };
                let want = want.map(|w| if neg { -w } else { w });
                let known_empty = matches!(&want, Err(e) if format!("{e:?}").contains("Empty")); // c05_radix_prefix_with_only_separators...
                if want.as_ref().ok() != Some(&got) && !known_empty {
                    mismatches.push(format!("{t} => {got:?}, expected {want:?}"));
                }
            }
        }
    });
    mismatches.sort();
    mismatches.dedup();
    assert!(mismatches.is_empty(), "{mismatches:#?}");
}

#[test]
fn c05_boundaries() {
    let lit = |t: &str| move_literal(t);
    assert_eq!(lit("9223372036854775807"), "MOVE(LiteralInteger(9223372036854775807) })");
    assert_eq!(lit("-9223372036854775808"), "MOVE(LiteralInteger(-9223372036854775808) })");
    for rejected in ["9223372036854775808", "18446744073709551615", "18446744073709551616", "-9223372036854775809", "0xffffffffffffffff", "0x10000000000000000",
        "1e400", "1.7976931348623159e308", "1e99999999999999999999", "1e", "1e-", ".", ".e5", "0x", "0b2", "+5", "--5"] {
        assert!(lit(rejected).starts_with("ERR"), "{rejected} => {}", lit(rejected));
    }
    assert_eq!(lit("1.7976931348623157e308"), "MOVE(LiteralReal(1.7976931348623157e308) })");
    assert_eq!(lit("1e-400"), "MOVE(LiteralReal(0.0) })");
    assert_eq!(lit("4.9e-324"), "MOVE(LiteralReal(5e-324) })");
    assert_eq!(lit("9007199254740993.0"), "MOVE(LiteralReal(9007199254740992.0) })");
    assert_eq!(lit("1__2_.3__4_e_5__6_"), "MOVE(LiteralReal(1.234e57) })");
    assert_eq!(lit("0x1e5"), "MOVE(LiteralInteger(485) })");
    assert_eq!(lit("-0x10"), "MOVE(LiteralInteger(-16) })");
    assert_eq!(lit(".5"), "MOVE(LiteralReal(0.5) })");
    assert_eq!(lit("5."), "MOVE(LiteralReal(5.0) })");
    // huge unsigned values where u64 is the natural domain
    let p = Program::from_str("X 18446744073709551615\nDECLARE ro BIT[18446744073709551615]\nMEASURE 0 ro[18446744073709551615]\nPRAGMA foo 18446744073709551615\nRX(18446744073709551615) 0\nDELAY 0 18446744073709551615").unwrap();
    let d = format!("{:?}", p.to_instructions());
    assert_eq!(d.matches("18446744073709551615").count(), 4, "{d}");
    assert_eq!(d.matches("1.8446744073709552e19").count(), 2, "{d}");
    assert!(Program::from_str("X 18446744073709551616").is_err());
    assert!(Program::from_str("DECLARE ro BIT[99999999999999999999]").is_err());
}

// ---------------- C06 (behaves correctly) ----------------

#[test]
fn c06_names_are_preserved() {
    let cases: &[(&str, &[&str])] = &[
        ("DECLARE Theta REAL[2]\nRX(Theta) 0\nRX(2*Theta[1] + sin(Theta)) 0\nMOVE Theta 1.0", &["Theta"]),
        ("DECLARE Pi REAL\nRX(Pi[0]) 0\nMOVE Pi 1.0", &["Pi"]),
        ("RX(Sqrt2) 0\nRX(cisx) 0\nRX(SIN[0]) 0\nRX(Inf) 0\nRX(NaN) 0", &["Sqrt2", "cisx", "SIN", "Inf", "NaN"]),
        ("LABEL @Start\nJUMP @Start\nJUMP-WHEN @sTART Ro[0]\nJUMP-UNLESS @a-B Ro", &["Start", "sTART", "a-B", "Ro"]),
        ("DEFFRAME 0 \"Rf_Frame\":\n    Sample-Rate: 1.0\n    INITIAL-frequency: MyMem", &["Rf_Frame", "Sample-Rate", "INITIAL-frequency", "MyMem"]),
        ("PULSE 0 Qv \"Rf\" Q20_q27_XY/sqrtiSWAP(Duration: 1, FWHM: Mem)", &["Qv", "Rf", "Q20_q27_XY/sqrtiSWAP", "Duration", "FWHM", "Mem"]),
        ("DEFWAVEFORM My/Wave(%Amp):\n    %Amp, 2*%Amp", &["My/Wave", "Amp"]),
        ("DEFGATE MyGate(%Theta) AS MATRIX:\n    cos(%Theta), 0\n    0, 1", &["MyGate", "Theta"]),
        ("DEFGATE MyGate Pq Qp AS PAULI-SUM:\n    ZZ(1) Pq Qp", &["MyGate", "Pq", "Qp"]),
        ("DEFGATE MyGate Pq Qp AS SEQUENCE:\n    Hh Pq\n    CNot Pq Qp", &["MyGate", "Pq", "Qp", "Hh", "CNot"]),
        ("DEFCIRCUIT MyCirc(%Alpha) Qa %Qb:\n    RX(%Alpha) Qa\n    CNOT Qa %Qb", &["MyCirc", "Alpha", "Qa", "Qb"]),
        ("DEFCAL MyGate(%Theta) Qq:\n    SHIFT-PHASE Qq \"Rf\" %Theta", &["MyGate", "Theta", "Qq", "Rf"]),
        ("DEFCAL MEASURE !MidCircuit Qq Dest:\n    CAPTURE Qq \"Ro\" Flat Dest", &["MidCircuit", "Qq", "Dest", "Ro", "Flat"]),
        ("PRAGMA My-Pragma Arg1 arG2 \"Data Here\"", &["My-Pragma", "Arg1", "arG2", "Data Here"]),
        ("MEASURE !MidCircuit Qq Ro[1]\nCALL MyFunc Ro Ro[1] 1", &["MidCircuit", "Qq", "Ro", "MyFunc"]),
        ("LOAD Dst Src Off\nSTORE Dst Off Src\nCONVERT Aa Bb\nEXCHANGE Aa Bb\nNEG Aa\nEQ Aa Bb Cc", &["Dst", "Src", "Off", "Aa", "Bb", "Cc"]),
        ("DECLARE Aa BIT SHARING Bb OFFSET 1 BIT", &["Aa", "Bb"]),
        ("X Qq\nFENCE Qq Rr\nRESET Qq\nDELAY Qq \"Ff\" 1\nSWAP-PHASES 0 \"Aa\" 0 \"aA\"\nRAW-CAPTURE 0 \"Ro\" Dur Dest\nINCLUDE \"Some/File.quil\"", &["Qq", "Rr", "Ff", "Aa", "aA", "Ro", "Dur", "Dest", "Some/File.quil"]),
    ];
    for (src, names) in cases {
        let p = Program::from_str(src).unwrap_or_else(|e| panic!("{src}: {e}"));
        let d = format!("{:?}", p.to_instructions());
        for n in *names {
            assert!(d.contains(&format!("\"{n}\"")), "{n} not found in {d}");
            let lower = n.to_lowercase();
            if lower != *n && !names.contains(&lower.as_str()) {
                assert!(!d.contains(&format!("\"{lower}\"")), "lower-cased {lower} found in {d}");
            }
        }
    }
    assert_eq!(format!("{:?}", Expression::from_str("Theta").unwrap()), "Address(MemoryReference { name: \"Theta\", index: 0 })");
    assert_eq!(format!("{:?}", MemoryReference::from_str("Ro[1]").unwrap()), "MemoryReference { name: \"Ro\", index: 1 }");
    assert_eq!(format!("{:?}", FrameIdentifier::from_str("Qq \"Rf\"").unwrap()), "FrameIdentifier { name: \"Rf\", qubits: [Variable(\"Qq\")] }");
    // escapes in quoted names
    let p = Program::from_str("DEFFRAME 0 \"a\\\"b\\\\c\":\n    X: \"S\\\\\"").unwrap();
    let d = format!("{:?}", p.to_instructions());
    assert!(d.contains(r#"name: "a\"b\\c""#) && d.contains(r#"String("S\\")"#), "{d}");
}

// ---------------- C23 / C24 deterministic scenarios (behave correctly) ----------------

fn edges_of(src: &str) -> BTreeSet<String> {
    let program = Program::from_str(src).unwrap();
    let sp = ScheduledProgram::from_program(&program, &DefaultHandler).unwrap();
    let mut out = BTreeSet::new();
    for b in sp.basic_blocks() {
        for (u, v, w) in b.get_dependency_graph().all_edges() {
            let mut deps: Vec<String> = w.iter().map(|d| format!("{d:?}")).collect();
            deps.sort();
            let n = |n: ScheduledGraphNode| match n {
                ScheduledGraphNode::BlockStart => "S".to_string(),
                ScheduledGraphNode::BlockEnd => "E".to_string(),
                ScheduledGraphNode::InstructionIndex(i) => i.to_string(),
            };
            out.insert(format!("{}->{} {}", n(u), n(v), deps.join("+")));
        }
    }
    out
}

#[test]
fn c23_small_scenarios() {
    let decl = "DECLARE a REAL\nDECLARE b REAL\nDECLARE c REAL\n";
    // write, read+write, read-modify-write
    let e = edges_of(&format!("{decl}MOVE a 1.0\nMOVE b a\nADD a b"));
    assert!(e.contains("0->1 AwaitMemoryAccess(Write)"), "{e:?}");
    assert!(e.contains("0->2 AwaitMemoryAccess(Write)"), "{e:?}");
    assert!(e.contains("1->2 AwaitMemoryAccess(Read)+AwaitMemoryAccess(Write)"), "{e:?}");
    // reads only: no memory edges
    let e = edges_of(&format!("{decl}MOVE b a\nMOVE c a\nJUMP-WHEN @x a"));
    assert!(!e.iter().any(|x| x.contains("Await")), "{e:?}");
    // write after reads
    let e = edges_of(&format!("{decl}MOVE b a\nMOVE c a\nMOVE a 1.0\nMOVE b a"));
    assert!(e.contains("0->2 AwaitMemoryAccess(Read)") && e.contains("1->2 AwaitMemoryAccess(Read)") && e.contains("2->3 AwaitMemoryAccess(Write)"), "{e:?}");
    assert!(!e.iter().any(|x| x.starts_with("0->1") && x.contains("Await")), "{e:?}");
    // captures
    let e = edges_of(&format!("{decl}DEFFRAME 0 \"x\":\n    A: 1\nCAPTURE 0 \"x\" w a\nMOVE b a\nRAW-CAPTURE 0 \"x\" b a\nJUMP-UNLESS @l a"));
    assert!(e.contains("0->1 AwaitMemoryAccess(Capture)"), "{e:?}");
    assert!(e.iter().any(|x| x.starts_with("1->2") && x.contains("AwaitMemoryAccess(Read)") && x.contains("AwaitMemoryAccess(Write)")), "{e:?}");
    assert!(e.iter().any(|x| x.starts_with("2->E") && x.contains("AwaitMemoryAccess(Capture)")), "{e:?}");
    for src in [
        format!("{decl}MOVE a 1.0\nMOVE b a\nADD a b"),
        format!("{decl}EXCHANGE a b\nEXCHANGE b c\nEXCHANGE a c\nNEG a\nJUMP-WHEN @l c"),
        format!("{decl}LOAD a b c\nSTORE a c b\nCONVERT c a\nEQ a b c"),
    ] {
        assert_eq!(check_schedule(&src).unwrap(), Vec::<String>::new());
    }
}

#[test]
fn c24_small_scenarios() {
    let frames = "DEFFRAME 0 \"x\":\n    A: 1\nDEFFRAME 0 \"y\":\n    A: 1\nDEFFRAME 0 1 \"z\":\n    A: 1\nDEFFRAME 1 \"x\":\n    A: 1\n";
    // two blocking pulses on different frames of qubit 0: each blocks the other's frame and uses its own
    let e = edges_of(&format!("{frames}PULSE 0 \"x\" w\nPULSE 0 \"y\" w"));
    assert!(e.contains("0->1 Scheduled+StableOrdering"), "{e:?}");
    // non-blocking pulses on different frames are independent
    let e = edges_of(&format!("{frames}NONBLOCKING PULSE 0 \"x\" w\nNONBLOCKING PULSE 0 \"y\" w"));
    assert!(!e.iter().any(|x| x.starts_with("0->1")), "{e:?}");
    // two instructions that only block a common frame (0 1 "z") and use unrelated frames are not ordered
    let e = edges_of(&format!("{frames}PULSE 0 \"x\" w\nPULSE 1 \"x\" w"));
    assert!(!e.iter().any(|x| x.starts_with("0->1")), "{e:?}");
    // ... but a later user of the commonly blocked frame waits for both
    let e = edges_of(&format!("{frames}PULSE 0 \"x\" w\nPULSE 1 \"x\" w\nNONBLOCKING PULSE 0 1 \"z\" w"));
    assert!(e.contains("0->2 Scheduled+StableOrdering") && e.contains("1->2 Scheduled+StableOrdering"), "{e:?}");
    // RESET is ordered but not timed
    let e = edges_of(&format!("{frames}NONBLOCKING PULSE 0 \"x\" w\nRESET 0\nNONBLOCKING PULSE 0 \"x\" w"));
    assert!(e.contains("0->1 StableOrdering") && e.contains("1->2 StableOrdering") && e.contains("0->2 Scheduled"), "{e:?}");
    for src in [
        format!("{frames}FENCE\nDELAY 0 1.0\nFENCE 1\nSWAP-PHASES 0 \"x\" 1 \"x\"\nRESET\nSET-PHASE 0 1 \"z\" 1.0\nHALT"),
        format!("{frames}RESET 0\nRESET 1\nRESET\nFENCE 0 1\nDELAY 0 \"x\" \"y\" 1.0"),
    ] {
        assert_eq!(check_schedule(&src).unwrap(), Vec::<String>::new());
    }
}
