use std::collections::{HashMap, HashSet};
use std::str::FromStr;

use num_complex::Complex64;
use quil_rs::expression::Expression;
use quil_rs::instruction::{
    DefaultHandler, ExternSignatureMap, Instruction, InstructionHandler,
};
use quil_rs::quil::Quil;
use quil_rs::Program;

fn frames(program_text: &str, index: usize) -> (Vec<String>, Vec<String>) {
    let program = Program::from_str(program_text).expect("parse");
    let instruction = program.body_instructions().nth(index).expect("instr");
    let matched = DefaultHandler
        .matching_frames(&program, instruction)
        .expect("frames");
    let mut used: Vec<String> = matched.used.iter().map(|f| f.to_quil_or_debug()).collect();
    let mut blocked: Vec<String> = matched
        .blocked
        .iter()
        .map(|f| f.to_quil_or_debug())
        .collect();
    used.sort();
    blocked.sort();
    (used, blocked)
}

fn accesses(program_text: &str, index: usize) -> (Vec<String>, Vec<String>, Vec<String>) {
    let program = Program::from_str(program_text).expect("parse");
    let map = ExternSignatureMap::try_from(program.extern_pragma_map.clone()).expect("externs");
    let instruction = program.body_instructions().nth(index).expect("instr");
    let a = DefaultHandler
        .memory_accesses(&map, instruction)
        .expect("accesses");
    let s = |h: &HashSet<String>| {
        let mut v: Vec<String> = h.iter().cloned().collect();
        v.sort();
        v
    };
    (s(&a.reads), s(&a.writes), s(&a.captures))
}

const FRAMES: &str = r#"DEFFRAME 0 "xy":
    INITIAL-FREQUENCY: 1e6
DEFFRAME 0 "ro":
    INITIAL-FREQUENCY: 1e6
DEFFRAME 1 "xy":
    INITIAL-FREQUENCY: 1e6
DEFFRAME 0 1 "cz":
    INITIAL-FREQUENCY: 1e6
DEFFRAME 1 0 "cz":
    INITIAL-FREQUENCY: 1e6
DEFFRAME 1 2 "cz":
    INITIAL-FREQUENCY: 1e6
DEFFRAME 2 "xy":
    INITIAL-FREQUENCY: 1e6
DEFFRAME 0 0 "dup":
    INITIAL-FREQUENCY: 1e6
"#;

#[test]
fn explore_frames() {
    for body in [
        "PULSE 0 \"xy\" gaussian(duration: 1, fwhm: 2, t0: 3)",
        "NONBLOCKING PULSE 0 \"xy\" gaussian(duration: 1, fwhm: 2, t0: 3)",
        "PULSE 0 1 \"cz\" gaussian(duration: 1, fwhm: 2, t0: 3)",
        "PULSE 1 0 \"cz\" gaussian(duration: 1, fwhm: 2, t0: 3)",
        "PULSE 0 \"undefined\" gaussian(duration: 1, fwhm: 2, t0: 3)",
        "DECLARE ro REAL[2]\nCAPTURE 0 \"ro\" gaussian(duration: 1, fwhm: 2, t0: 3) ro[0]",
        "DECLARE ro REAL[2]\nNONBLOCKING CAPTURE 0 \"ro\" gaussian(duration: 1, fwhm: 2, t0: 3) ro[0]",
        "DECLARE ro REAL[2]\nRAW-CAPTURE 0 \"ro\" 1e-6 ro[0]",
        "DECLARE ro REAL[2]\nNONBLOCKING RAW-CAPTURE 0 \"ro\" 1e-6 ro[0]",
        "SET-FREQUENCY 0 \"xy\" 1.0",
        "SHIFT-PHASE 0 1 \"cz\" 1.0",
        "SWAP-PHASES 0 \"xy\" 0 \"xy\"",
        "SWAP-PHASES 0 \"xy\" 1 \"xy\"",
        "SWAP-PHASES 0 \"xy\" 1 \"nope\"",
        "FENCE",
        "FENCE 0",
        "FENCE 0 0",
        "FENCE 2",
        "FENCE 3",
        "DELAY 0 1.0",
        "DELAY 0 0 1.0",
        "DELAY 0 1 1.0",
        "DELAY 1 0 1.0",
        "DELAY 0 \"xy\" 1.0",
        "DELAY 0 \"xy\" \"ro\" 1.0",
        "DELAY 0 \"cz\" 1.0",
        "DELAY 0 1 \"cz\" 1.0",
        "DELAY 0 1 \"xy\" 1.0",
        "DELAY 3 1.0",
        "RESET 0",
        "RESET 1",
        "RESET 3",
        "RESET",
        "X 0\nRESET",
    ] {
        let text = format!("{FRAMES}{body}\n");
        let program = Program::from_str(&text).expect(body);
        let n = program.body_instructions().count();
        let (used, blocked) = frames(&text, n - 1);
        println!("{body:?}\n   used={used:?}\n   blocked={blocked:?}");
    }
}

#[test]
fn explore_memory() {
    let decls = "DECLARE a INTEGER[4]\nDECLARE b INTEGER[4]\nDECLARE c BIT[4]\nDECLARE r REAL[4]\nDECLARE s REAL[4]\nDECLARE o OCTET[4]\n";
    for body in [
        "MOVE a[0] 1",
        "MOVE a[0] b[1]",
        "MOVE a[0] a[1]",
        "ADD a[0] b[1]",
        "ADD a[0] 1",
        "SUB r[0] 1.5",
        "AND a[0] b[0]",
        "IOR a[0] 3",
        "XOR a[0] b[0]",
        "NEG a[0]",
        "NOT c[0]",
        "EXCHANGE a[0] b[0]",
        "CONVERT r[0] a[0]",
        "LOAD a[0] b a[1]",
        "LOAD r[0] s a[1]",
        "STORE a b[0] 1",
        "STORE r a[0] s[1]",
        "EQ c[0] a[0] b[0]",
        "EQ c[0] a[0] 1",
        "GT c[0] r[0] 1.5",
        "LT c[0] r[0] s[0]",
        "JUMP-WHEN @x c[0]",
        "JUMP-UNLESS @x c[1]",
        "JUMP @x",
        "MEASURE 0 c[0]",
        "MEASURE 0",
        "RX(r[0]) 0",
        "RX(r[0]*2+s[1]) 0",
        "RX(sin(r[0])) 0",
        "CONTROLLED RX(-r[0]) 1 0",
        "PULSE 0 \"xy\" gaussian(duration: r[0], fwhm: s[1], t0: 3)",
        "CAPTURE 0 \"ro\" gaussian(duration: r[0], fwhm: 2, t0: 3) s[0]",
        "RAW-CAPTURE 0 \"ro\" r[0] s[0]",
        "RAW-CAPTURE 0 \"ro\" 1.0 s[0]",
        "SET-FREQUENCY 0 \"xy\" r[0]*2",
        "SHIFT-FREQUENCY 0 \"xy\" r[0]",
        "SET-PHASE 0 \"xy\" r[0]",
        "SHIFT-PHASE 0 \"xy\" r[0]+s[0]",
        "SET-SCALE 0 \"xy\" r[0]",
        "DELAY 0 r[0]",
        "DELAY 0 \"xy\" r[0]*s[0]",
        "FENCE 0",
        "RESET 0",
        "SWAP-PHASES 0 \"xy\" 1 \"xy\"",
        "PRAGMA foo a",
        "NOP",
        "HALT",
        "WAIT",
    ] {
        let text = format!("{decls}{body}\nLABEL @x\n");
        let program = match Program::from_str(&text) {
            Ok(p) => p,
            Err(e) => {
                println!("{body:?}: PARSE ERROR {e}");
                continue;
            }
        };
        let _ = program;
        let (r, w, c) = accesses(&text, 0);
        println!("{body:?}: reads={r:?} writes={w:?} captures={c:?}");
    }
}

fn gate_match(defs: &str, gate: &str) -> Option<String> {
    let program = Program::from_str(&format!("{defs}\n{gate}\n")).expect("parse");
    let g = match program.body_instructions().last().unwrap() {
        Instruction::Gate(g) => g.clone(),
        other => panic!("not a gate: {other:?}"),
    };
    program.calibrations.get_match_for_gate(&g).map(|c| {
        // the body's first instruction identifies the calibration
        c.instructions
            .iter()
            .map(|i| i.to_quil_or_debug())
            .collect::<Vec<_>>()
            .join("; ")
    })
}

fn measure_match(defs: &str, m: &str) -> Option<String> {
    let program = Program::from_str(&format!("DECLARE ro BIT[4]\n{defs}\n{m}\n")).expect("parse");
    let g = match program.body_instructions().last().unwrap() {
        Instruction::Measurement(g) => g.clone(),
        other => panic!("not a measurement: {other:?}"),
    };
    program.calibrations.get_match_for_measurement(&g).map(|c| {
        c.instructions
            .iter()
            .map(|i| i.to_quil_or_debug())
            .collect::<Vec<_>>()
            .join("; ")
    })
}

#[test]
fn explore_gate_matching() {
    let cases: Vec<(&str, &str)> = vec![
        ("DEFCAL RX(pi/2) 0:\n    PRAGMA A\nDEFCAL RX(%t) 0:\n    PRAGMA B", "RX(pi/2) 0"),
        ("DEFCAL RX(%t) 0:\n    PRAGMA B\nDEFCAL RX(pi/2) 0:\n    PRAGMA A", "RX(pi/2) 0"),
        ("DEFCAL RX(pi/2) 0:\n    PRAGMA A", "RX(1.5707963267948966) 0"),
        ("DEFCAL RX(pi/2) 0:\n    PRAGMA A", "RX(2*pi/4) 0"),
        ("DEFCAL RX(pi/2) 0:\n    PRAGMA A", "RX(pi/2+0) 0"),
        ("DEFCAL RX(pi/2) 0:\n    PRAGMA A", "RX(-pi/2) 0"),
        ("DEFCAL RX(-pi/2) 0:\n    PRAGMA A", "RX(-pi/2) 0"),
        ("DEFCAL RX(-pi/2) 0:\n    PRAGMA A", "RX(-1.5707963267948966) 0"),
        ("DEFCAL RX(0) 0:\n    PRAGMA A", "RX(-0.0) 0"),
        ("DEFCAL RX(0) 0:\n    PRAGMA A", "RX(0*pi) 0"),
        ("DEFCAL RX(0.3) 0:\n    PRAGMA A", "RX(0.1+0.2) 0"),
        ("DEFCAL RX(1) 0:\n    PRAGMA A", "RX(1.0) 0"),
        ("DEFCAL RX(1) 0:\n    PRAGMA A", "RX(1+0i) 0"),
        ("DEFCAL RX(%t) 0:\n    PRAGMA A", "RX(theta[0]) 0"),
        ("DECLARE theta REAL\nDEFCAL RX(theta) 0:\n    PRAGMA A", "RX(theta) 0"),
        ("DECLARE theta REAL\nDEFCAL RX(theta) 0:\n    PRAGMA A", "RX(theta[0]) 0"),
        ("DECLARE theta REAL\nDEFCAL RX(2*theta) 0:\n    PRAGMA A", "RX(theta*2) 0"),
        ("DECLARE theta REAL\nDEFCAL RX(theta+theta) 0:\n    PRAGMA A", "RX(2*theta) 0"),
        ("DEFCAL RX(%t*1) 0:\n    PRAGMA A", "RX(3) 0"),
        ("DEFCAL RX(%t+%u) 0:\n    PRAGMA A", "RX(3) 0"),
        ("DEFCAL RX(%t) 0:\n    PRAGMA A", "RX(%t) 0"),
        ("DEFCAL RX(1) 0:\n    PRAGMA A", "RX(%t) 0"),
        // qubits
        ("DEFCAL CZ 0 1:\n    PRAGMA A", "CZ 1 0"),
        ("DEFCAL CZ q r:\n    PRAGMA V\nDEFCAL CZ 0 r:\n    PRAGMA F0\nDEFCAL CZ q 1:\n    PRAGMA F1", "CZ 0 1"),
        ("DEFCAL CZ q r:\n    PRAGMA V\nDEFCAL CZ q 1:\n    PRAGMA F1\nDEFCAL CZ 0 r:\n    PRAGMA F0", "CZ 0 1"),
        ("DEFCAL CZ 0 1:\n    PRAGMA FF\nDEFCAL CZ q r:\n    PRAGMA V", "CZ 0 1"),
        ("DEFCAL CZ q q:\n    PRAGMA V", "CZ 0 1"),
        ("DEFCAL X q:\n    PRAGMA V", "X 0 1"),
        ("DEFCAL X 0:\n    PRAGMA V", "X q"),
        ("DEFCAL X q:\n    PRAGMA V", "X r"),
        // modifiers
        ("DEFCAL X 0:\n    PRAGMA A", "DAGGER X 0"),
        ("DEFCAL DAGGER X 0:\n    PRAGMA A", "DAGGER X 0"),
        ("DEFCAL DAGGER X 0:\n    PRAGMA A", "X 0"),
        ("DEFCAL DAGGER X 0:\n    PRAGMA A", "DAGGER DAGGER X 0"),
        ("DEFCAL CONTROLLED X 1 0:\n    PRAGMA A", "CONTROLLED X 1 0"),
        ("DEFCAL CONTROLLED DAGGER X 1 0:\n    PRAGMA A", "DAGGER CONTROLLED X 1 0"),
        ("DEFCAL FORKED RX(1, 2) 1 0:\n    PRAGMA A", "FORKED RX(1, 2) 1 0"),
        // replacement in place
        ("DEFCAL RX(%t) 0:\n    PRAGMA A\nDEFCAL RX(pi) 0:\n    PRAGMA B\nDEFCAL RX(%t) 0:\n    PRAGMA C", "RX(pi) 0"),
        ("DEFCAL RX(%t) 0:\n    PRAGMA A\nDEFCAL RX(pi) 0:\n    PRAGMA B\nDEFCAL RX(%u) 0:\n    PRAGMA C", "RX(pi) 0"),
        ("DEFCAL RX(pi) 0:\n    PRAGMA A\nDEFCAL RX(3.141592653589793) 0:\n    PRAGMA B", "RX(pi) 0"),
        // name case
        ("DEFCAL rx(%t) 0:\n    PRAGMA A", "RX(1) 0"),
    ];
    for (defs, gate) in cases {
        let result = std::panic::catch_unwind(|| gate_match(defs, gate));
        println!("{:?} :: {:?} => {:?}", defs.replace("\n    ", " "), gate, result);
    }
}

#[test]
fn explore_measure_matching() {
    let cases: Vec<(&str, &str)> = vec![
        ("DEFCAL MEASURE 0 addr:\n    PRAGMA F\nDEFCAL MEASURE q addr:\n    PRAGMA V", "MEASURE 0 ro[0]"),
        ("DEFCAL MEASURE q addr:\n    PRAGMA V\nDEFCAL MEASURE 0 addr:\n    PRAGMA F", "MEASURE 0 ro[0]"),
        ("DEFCAL MEASURE q addr:\n    PRAGMA V\nDEFCAL MEASURE 0 addr:\n    PRAGMA F", "MEASURE 1 ro[0]"),
        ("DEFCAL MEASURE 0 addr:\n    PRAGMA F", "MEASURE 0"),
        ("DEFCAL MEASURE 0:\n    PRAGMA E", "MEASURE 0 ro[0]"),
        ("DEFCAL MEASURE 0:\n    PRAGMA E\nDEFCAL MEASURE q:\n    PRAGMA EV", "MEASURE 0"),
        ("DEFCAL MEASURE 0 addr:\n    PRAGMA F1\nDEFCAL MEASURE 0 dest:\n    PRAGMA F2", "MEASURE 0 ro[0]"),
        ("DEFCAL MEASURE 0 addr:\n    PRAGMA F1\nDEFCAL MEASURE 0 addr:\n    PRAGMA F2", "MEASURE 0 ro[0]"),
        ("DEFCAL MEASURE q addr:\n    PRAGMA V1\nDEFCAL MEASURE r addr:\n    PRAGMA V2", "MEASURE 0 ro[0]"),
        ("DEFCAL MEASURE!mid 0 addr:\n    PRAGMA N", "MEASURE 0 ro[0]"),
        ("DEFCAL MEASURE!mid 0 addr:\n    PRAGMA N", "MEASURE!mid 0 ro[0]"),
        ("DEFCAL MEASURE 0 addr:\n    PRAGMA U", "MEASURE!mid 0 ro[0]"),
        ("DEFCAL MEASURE!mid q addr:\n    PRAGMA NV\nDEFCAL MEASURE 0 addr:\n    PRAGMA U", "MEASURE!mid 0 ro[0]"),
        ("DEFCAL MEASURE q addr:\n    PRAGMA V", "MEASURE q ro[0]"),
        ("DEFCAL MEASURE 0 addr:\n    PRAGMA F", "MEASURE q ro[0]"),
        // in place replacement vs later wins
        ("DEFCAL MEASURE q addr:\n    PRAGMA V1\nDEFCAL MEASURE r addr:\n    PRAGMA V2\nDEFCAL MEASURE q addr:\n    PRAGMA V3", "MEASURE 0 ro[0]"),
    ];
    for (defs, m) in cases {
        let result = std::panic::catch_unwind(|| measure_match(defs, m));
        println!("{:?} :: {:?} => {:?}", defs.replace("\n    ", " "), m, result);
    }
}

fn accesses_of(instruction: &Instruction, program: &Program) -> String {
    let map = ExternSignatureMap::try_from(program.extern_pragma_map.clone()).expect("externs");
    match DefaultHandler.memory_accesses(&map, instruction) {
        Ok(a) => {
            let s = |h: &HashSet<String>| {
                let mut v: Vec<String> = h.iter().cloned().collect();
                v.sort();
                v
            };
            format!("reads={:?} writes={:?} captures={:?}", s(&a.reads), s(&a.writes), s(&a.captures))
        }
        Err(e) => format!("ERR {e}"),
    }
}

#[test]
fn explore_memory_defs_and_calls() {
    let texts = [
        "DECLARE r REAL[4]\nDEFFRAME 0 \"xy\":\n    INITIAL-FREQUENCY: r[0]\n",
        "DECLARE r REAL[4]\nDEFFRAME 0 \"xy\":\n    INITIAL-FREQUENCY: 2*r[1]+1\n",
        "DECLARE r REAL[4]\nDEFWAVEFORM wf:\n    r[0], 2*r[1]\n",
        "DECLARE r REAL[4]\nDEFGATE G(%t) AS MATRIX:\n    r[0], 0\n    0, 1\n",
        "DECLARE r REAL[4]\nDEFGATE G(%t) p AS PAULI-SUM:\n    X(r[0]*%t) p\n",
        "DECLARE r REAL[4]\nDEFGATE G(%t) p AS SEQUENCE:\n    RX(r[0]*%t) p\n",
        "DECLARE r REAL[4]\nDECLARE c BIT\nDEFCIRCUIT C(%t) q:\n    RX(r[0]) q\n    MEASURE q c[0]\n    MOVE r[1] 1.0\n",
        "DECLARE r REAL[4]\nDEFCAL RX(r[0]) 0:\n    SHIFT-PHASE 0 \"xy\" r[1]\n",
        "DECLARE r REAL[4]\nDEFCAL MEASURE 0 addr:\n    CAPTURE 0 \"ro\" flat(duration: r[0], iq: 1) addr\n",
        "DECLARE c BIT[2]\nMEASURE!mid 0 c[1]\n",
    ];
    for text in texts {
        match Program::from_str(text) {
            Err(e) => println!("{text:?}: PARSE ERROR {e}"),
            Ok(p) => {
                for i in p.to_instructions() {
                    if matches!(i, Instruction::Declaration(_)) {
                        continue;
                    }
                    println!("{:?}: {}", i.to_quil_or_debug(), accesses_of(&i, &p));
                }
            }
        }
    }
    let call_texts = [
        ("PRAGMA EXTERN foo \"INTEGER (x : INTEGER, y : mut REAL[])\"", "CALL foo a[0] b[1] r"),
        ("PRAGMA EXTERN foo \"INTEGER (x : INTEGER, y : mut REAL[])\"", "CALL foo a b r"),
        ("PRAGMA EXTERN foo \"INTEGER (x : INTEGER, y : mut REAL[])\"", "CALL foo a 3 r"),
        ("PRAGMA EXTERN foo \"INTEGER (x : INTEGER, y : mut REAL[])\"", "CALL foo a"),
        ("PRAGMA EXTERN foo \"INTEGER (x : INTEGER, y : mut REAL[])\"", "CALL foo a b r s"),
        ("PRAGMA EXTERN foo \"INTEGER (x : INTEGER, y : mut REAL[])\"", "CALL foo 3 b r"),
        ("PRAGMA EXTERN foo \"(x : mut INTEGER, y : REAL[4])\"", "CALL foo a[1] r"),
        ("PRAGMA EXTERN foo \"(x : mut INTEGER, y : REAL[4])\"", "CALL foo 1 r"),
        ("PRAGMA EXTERN foo \"INTEGER\"", "CALL foo a"),
        ("PRAGMA EXTERN foo \"INTEGER\"", "CALL foo a[9]"),
        ("PRAGMA EXTERN foo \"(x : INTEGER)\"", "CALL foo a[9]"),
        ("PRAGMA EXTERN foo \"(x : INTEGER)\"", "CALL foo 1.5"),
        ("PRAGMA EXTERN foo \"(x : BIT)\"", "CALL foo 2i"),
        ("PRAGMA EXTERN foo \"(x : INTEGER)\"", "CALL foo r[0]"),
        ("PRAGMA EXTERN foo \"(x : INTEGER)\"", "CALL foo undeclared"),
        ("PRAGMA EXTERN foo \"(x : INTEGER[4])\"", "CALL foo a"),
        ("PRAGMA EXTERN foo \"(x : INTEGER[3])\"", "CALL foo a"),
        ("PRAGMA EXTERN foo \"(x : INTEGER[])\"", "CALL foo a"),
        ("PRAGMA EXTERN foo \"(x : INTEGER[])\"", "CALL foo r"),
        ("PRAGMA EXTERN foo \"(x : INTEGER[])\"", "CALL foo a[0]"),
        ("PRAGMA EXTERN foo \"(x : INTEGER[1])\"", "CALL foo one"),
        ("PRAGMA EXTERN foo \"(x : INTEGER)\"", "CALL foo one"),
        ("PRAGMA EXTERN foo \"(x : INTEGER)\"", "CALL foo a"),
        ("PRAGMA EXTERN foo \"(x : INTEGER)\"", "CALL bar a"),
    ];
    for (ext, call) in call_texts {
        let text = format!("{ext}\nDECLARE a INTEGER[4]\nDECLARE b INTEGER[4]\nDECLARE r REAL[4]\nDECLARE s REAL[4]\nDECLARE one INTEGER\n{call}\n");
        match Program::from_str(&text) {
            Err(e) => println!("{ext:?} {call:?}: PARSE ERROR {e}"),
            Ok(p) => {
                let i = p.body_instructions().last().unwrap().clone();
                let map = ExternSignatureMap::try_from(p.extern_pragma_map.clone()).expect("externs");
                let resolved = match &i {
                    Instruction::Call(c) => format!("{:?}", c.resolve_arguments(&p.memory_regions, &map).map(|v| v.len())),
                    _ => "n/a".into(),
                };
                println!("{ext:?} {call:?}: {} resolve={}", accesses_of(&i, &p), resolved);
            }
        }
    }
}

#[test]
fn explore_extern_roundtrip() {
    use quil_rs::instruction::ExternSignature;
    for s in [
        "INTEGER",
        "INTEGER()",
        "INTEGER ( )",
        "()",
        "",
        "(x : INTEGER)",
        "(x:INTEGER)",
        "(x:mut INTEGER[3],y:REAL[])",
        "  REAL   (  x  :  mut   BIT  ,  y : OCTET [ 2 ] , z : REAL [ ] )  ",
        "(x : INTEGER, x : REAL)",
        "(mut : INTEGER)",
        "(i : INTEGER)",
        "(pi : INTEGER)",
        "(H : INTEGER)",
        "(a-b : INTEGER)",
        "(a--b : INTEGER)",
        "(_ : INTEGER)",
        "(x : INTEGER[0])",
        "(x : INTEGER[18446744073709551615])",
        "(x : INTEGER[0x10])",
        "(x : INTEGER[1_0])",
        "(x : mut mut INTEGER)",
        "(x : INTEGER,)",
        "INTEGER REAL",
        "INTEGER[2] (x : INTEGER)",
        "(x : INTEGER) INTEGER",
        "(x : INTEGER)\n",
        "(x : INTEGER) # comment",
        "(x : INTEGER,\n y : REAL)",
        "(x : INTEGER;y : REAL)",
    ] {
        match ExternSignature::from_str(s) {
            Err(e) => println!("{s:?}: ERR {}", e.to_string().chars().take(100).collect::<String>()),
            Ok(sig) => {
                let printed = sig.to_quil_or_debug();
                let back = ExternSignature::from_str(&printed);
                println!("{s:?}: printed {printed:?} roundtrip_ok={}", back.as_ref().ok() == Some(&sig));
            }
        }
    }
}


// ---------------------------------------------------------------------------------------------
// Scenarios that behave correctly (assertions pass on the unchanged code)
// ---------------------------------------------------------------------------------------------

fn v(items: &[&str]) -> Vec<String> {
    items.iter().map(|s| s.to_string()).collect()
}

#[test]
fn ok_c26_frame_matching_table() {
    let pulse = "gaussian(duration: 1, fwhm: 2, t0: 3)";
    let cases: Vec<(String, Vec<String>, Vec<String>)> = vec![
        (
            format!("PULSE 0 \"xy\" {pulse}"),
            v(&["0 \"xy\""]),
            v(&["0 \"ro\"", "0 0 \"dup\"", "0 1 \"cz\"", "1 0 \"cz\""]),
        ),
        (format!("NONBLOCKING PULSE 0 \"xy\" {pulse}"), v(&["0 \"xy\""]), v(&[])),
        (
            format!("PULSE 1 0 \"cz\" {pulse}"),
            v(&["1 0 \"cz\""]),
            v(&["0 \"ro\"", "0 \"xy\"", "0 0 \"dup\"", "0 1 \"cz\"", "1 \"xy\"", "1 2 \"cz\""]),
        ),
        (
            "DECLARE ro REAL[2]\nRAW-CAPTURE 0 \"ro\" 1e-6 ro[0]".to_string(),
            v(&["0 \"ro\""]),
            v(&["0 \"xy\"", "0 0 \"dup\"", "0 1 \"cz\"", "1 0 \"cz\""]),
        ),
        (
            "DECLARE ro REAL[2]\nNONBLOCKING RAW-CAPTURE 0 \"ro\" 1e-6 ro[0]".to_string(),
            v(&["0 \"ro\""]),
            v(&[]),
        ),
        ("SHIFT-PHASE 0 1 \"cz\" 1.0".to_string(), v(&["0 1 \"cz\""]), v(&[])),
        ("SWAP-PHASES 0 \"xy\" 0 \"xy\"".to_string(), v(&["0 \"xy\""]), v(&[])),
        ("SWAP-PHASES 0 \"xy\" 1 \"xy\"".to_string(), v(&["0 \"xy\"", "1 \"xy\""]), v(&[])),
        ("SWAP-PHASES 0 \"xy\" 1 \"nope\"".to_string(), v(&["0 \"xy\""]), v(&[])),
        (
            "FENCE 0 0".to_string(),
            v(&["0 \"ro\"", "0 \"xy\"", "0 0 \"dup\"", "0 1 \"cz\"", "1 0 \"cz\""]),
            v(&[]),
        ),
        ("FENCE 2".to_string(), v(&["1 2 \"cz\"", "2 \"xy\""]), v(&[])),
        ("FENCE 3".to_string(), v(&[]), v(&[])),
        ("DELAY 0 0 1.0".to_string(), v(&["0 \"ro\"", "0 \"xy\"", "0 0 \"dup\""]), v(&[])),
        ("DELAY 1 0 1.0".to_string(), v(&["0 1 \"cz\"", "1 0 \"cz\""]), v(&[])),
        ("DELAY 0 \"xy\" \"ro\" 1.0".to_string(), v(&["0 \"ro\"", "0 \"xy\""]), v(&[])),
        ("DELAY 0 \"cz\" 1.0".to_string(), v(&[]), v(&[])),
        ("DELAY 0 1 \"xy\" 1.0".to_string(), v(&[]), v(&[])),
        (
            "RESET 1".to_string(),
            v(&["1 \"xy\""]),
            v(&["0 1 \"cz\"", "1 0 \"cz\"", "1 2 \"cz\""]),
        ),
        ("RESET 3".to_string(), v(&[]), v(&[])),
    ];
    for (body, used, blocked) in cases {
        let text = format!("{FRAMES}{body}\n");
        let program = Program::from_str(&text).expect(&body);
        let n = program.body_instructions().count();
        let (u, b) = frames(&text, n - 1);
        assert_eq!((u, b), (used, blocked), "{body}");
    }
    // FENCE without qubits uses every frame.
    let text = format!("{FRAMES}FENCE\n");
    assert_eq!(frames(&text, 0).0.len(), 8);
}

#[test]
fn ok_c27_memory_access_table() {
    let decls = "DECLARE a INTEGER[4]\nDECLARE b INTEGER[4]\nDECLARE c BIT[4]\nDECLARE r REAL[4]\nDECLARE s REAL[4]\n";
    let cases: Vec<(&str, Vec<String>, Vec<String>, Vec<String>)> = vec![
        ("MOVE a[0] 1", v(&[]), v(&["a"]), v(&[])),
        ("MOVE a[0] b[1]", v(&["b"]), v(&["a"]), v(&[])),
        ("ADD a[0] b[1]", v(&["a", "b"]), v(&["a"]), v(&[])),
        ("IOR a[0] 3", v(&["a"]), v(&["a"]), v(&[])),
        ("NEG a[0]", v(&["a"]), v(&["a"]), v(&[])),
        ("EXCHANGE a[0] b[0]", v(&["a", "b"]), v(&["a", "b"]), v(&[])),
        ("CONVERT r[0] a[0]", v(&["a"]), v(&["r"]), v(&[])),
        ("LOAD r[0] s a[1]", v(&["a", "s"]), v(&["r"]), v(&[])),
        ("STORE a b[0] 1", v(&["b"]), v(&["a"]), v(&[])),
        ("STORE r a[0] s[1]", v(&["a", "s"]), v(&["r"]), v(&[])),
        ("EQ c[0] a[0] 1", v(&["a"]), v(&["c"]), v(&[])),
        ("LT c[0] r[0] s[0]", v(&["r", "s"]), v(&["c"]), v(&[])),
        ("JUMP-UNLESS @x c[1]", v(&["c"]), v(&[]), v(&[])),
        ("MEASURE 0 c[0]", v(&[]), v(&[]), v(&["c"])),
        ("MEASURE 0", v(&[]), v(&[]), v(&[])),
        ("CONTROLLED RX(-r[0]*2+sin(s[1])) 1 0", v(&["r", "s"]), v(&[]), v(&[])),
        (
            "PULSE 0 \"xy\" gaussian(duration: r[0], fwhm: s[1], t0: 3)",
            v(&["r", "s"]),
            v(&[]),
            v(&[]),
        ),
        (
            "CAPTURE 0 \"ro\" gaussian(duration: r[0], fwhm: 2, t0: 3) s[0]",
            v(&["r"]),
            v(&[]),
            v(&["s"]),
        ),
        ("RAW-CAPTURE 0 \"ro\" r[0] s[0]", v(&["r"]), v(&[]), v(&["s"])),
        ("SET-FREQUENCY 0 \"xy\" r[0]*2", v(&["r"]), v(&[]), v(&[])),
        ("SHIFT-PHASE 0 \"xy\" r[0]+s[0]", v(&["r", "s"]), v(&[]), v(&[])),
        ("DELAY 0 \"xy\" r[0]*s[0]", v(&["r", "s"]), v(&[]), v(&[])),
        ("RESET 0", v(&[]), v(&[]), v(&[])),
    ];
    for (body, r, w, c) in cases {
        let text = format!("{decls}{body}\nLABEL @x\n");
        assert_eq!(accesses(&text, 0), (r, w, c), "{body}");
    }
}

#[test]
fn ok_c27_call_accesses() {
    let text = "PRAGMA EXTERN foo \"INTEGER (x : INTEGER, y : mut REAL[], z : REAL)\"\nDECLARE a INTEGER[4]\nDECLARE b INTEGER[4]\nDECLARE r REAL[4]\nCALL foo a[0] b[1] r 2.5\n";
    assert_eq!(accesses(text, 0), (v(&["a", "b", "r"]), v(&["a", "r"]), v(&[])));
}

#[test]
fn ok_c16_gate_precedence() {
    let b = |s: &str| Some(format!("PRAGMA {s}"));
    // most fixed qubits wins regardless of order; ties go to the later definition
    assert_eq!(gate_match("DEFCAL CZ 0 1:\n    PRAGMA FF\nDEFCAL CZ q r:\n    PRAGMA V", "CZ 0 1"), b("FF"));
    assert_eq!(
        gate_match("DEFCAL CZ q r:\n    PRAGMA V\nDEFCAL CZ 0 r:\n    PRAGMA F0\nDEFCAL CZ q 1:\n    PRAGMA F1", "CZ 0 1"),
        b("F1")
    );
    assert_eq!(gate_match("DEFCAL CZ 0 1:\n    PRAGMA A", "CZ 1 0"), None);
    // parameters compared after simplification
    assert_eq!(gate_match("DEFCAL RX(pi/2) 0:\n    PRAGMA A", "RX(2*pi/4+0) 0"), b("A"));
    assert_eq!(gate_match("DEFCAL RX(pi/2) 0:\n    PRAGMA A", "RX(-pi/2) 0"), None);
    assert_eq!(gate_match("DEFCAL RX(1) 0:\n    PRAGMA A", "RX(%t) 0"), None);
    // modifiers
    assert_eq!(gate_match("DEFCAL X 0:\n    PRAGMA A", "DAGGER X 0"), None);
    assert_eq!(gate_match("DEFCAL DAGGER X 0:\n    PRAGMA A", "X 0"), None);
    assert_eq!(gate_match("DEFCAL DAGGER X 0:\n    PRAGMA A", "DAGGER X 0"), b("A"));
    assert_eq!(gate_match("DEFCAL CONTROLLED DAGGER X 1 0:\n    PRAGMA A", "DAGGER CONTROLLED X 1 0"), None);
    // counts
    assert_eq!(gate_match("DEFCAL X q:\n    PRAGMA V", "X 0 1"), None);
    // identical signature replaces
    assert_eq!(gate_match("DEFCAL X 0:\n    PRAGMA A\nDEFCAL X 0:\n    PRAGMA B", "X 0"), b("B"));
}

#[test]
fn ok_c16_measure_precedence() {
    let b = |s: &str| Some(format!("PRAGMA {s}"));
    assert_eq!(measure_match("DEFCAL MEASURE 0 addr:\n    PRAGMA F\nDEFCAL MEASURE q addr:\n    PRAGMA V", "MEASURE 0 ro[0]"), b("F"));
    assert_eq!(measure_match("DEFCAL MEASURE 0 addr:\n    PRAGMA F\nDEFCAL MEASURE q addr:\n    PRAGMA V", "MEASURE 1 ro[0]"), b("V"));
    assert_eq!(measure_match("DEFCAL MEASURE 0 addr:\n    PRAGMA F", "MEASURE 0"), None);
    assert_eq!(measure_match("DEFCAL MEASURE 0:\n    PRAGMA E", "MEASURE 0 ro[0]"), None);
    assert_eq!(measure_match("DEFCAL MEASURE 0:\n    PRAGMA E\nDEFCAL MEASURE q:\n    PRAGMA EV", "MEASURE 0"), b("E"));
    assert_eq!(measure_match("DEFCAL MEASURE!mid 0 addr:\n    PRAGMA N", "MEASURE 0 ro[0]"), None);
    assert_eq!(measure_match("DEFCAL MEASURE 0 addr:\n    PRAGMA U", "MEASURE!mid 0 ro[0]"), None);
    assert_eq!(
        measure_match("DEFCAL MEASURE!mid q addr:\n    PRAGMA NV\nDEFCAL MEASURE 0 addr:\n    PRAGMA U", "MEASURE!mid 0 ro[0]"),
        b("NV")
    );
    assert_eq!(measure_match("DEFCAL MEASURE q addr:\n    PRAGMA V1\nDEFCAL MEASURE r addr:\n    PRAGMA V2", "MEASURE 0 ro[0]"), b("V2"));
    assert_eq!(measure_match("DEFCAL MEASURE 0 addr:\n    PRAGMA F1\nDEFCAL MEASURE 0 addr:\n    PRAGMA F2", "MEASURE 0 ro[0]"), b("F2"));
}

fn resolves(ext: &str, call: &str) -> bool {
    let text = format!("PRAGMA EXTERN foo \"{ext}\"\nDECLARE a INTEGER[4]\nDECLARE r REAL[4]\nDECLARE one INTEGER\n{call}\n");
    let p = Program::from_str(&text).expect("parse");
    let map = ExternSignatureMap::try_from(p.extern_pragma_map.clone()).expect("externs");
    match p.body_instructions().last().unwrap() {
        Instruction::Call(c) => c.resolve_arguments(&p.memory_regions, &map).is_ok(),
        _ => panic!("not a call"),
    }
}

#[test]
fn ok_c31_resolution_and_roundtrip() {
    use quil_rs::instruction::ExternSignature;
    assert!(resolves("INTEGER (x : INTEGER, y : mut REAL[])", "CALL foo a[0] a[1] r"));
    assert!(resolves("INTEGER (x : INTEGER, y : mut REAL[])", "CALL foo a 3 r"));
    assert!(!resolves("INTEGER (x : INTEGER, y : mut REAL[])", "CALL foo a"));
    assert!(!resolves("INTEGER (x : INTEGER, y : mut REAL[])", "CALL foo a a r r"));
    assert!(!resolves("INTEGER (x : INTEGER, y : mut REAL[])", "CALL foo 3 a r"));
    assert!(!resolves("INTEGER (x : INTEGER)", "CALL foo r[0] a"));
    assert!(!resolves("(x : mut INTEGER)", "CALL foo 1"));
    assert!(!resolves("(x : INTEGER)", "CALL foo r[0]"));
    assert!(!resolves("(x : INTEGER)", "CALL foo undeclared"));
    assert!(resolves("(x : INTEGER[4])", "CALL foo a"));
    assert!(!resolves("(x : INTEGER[3])", "CALL foo a"));
    assert!(resolves("(x : INTEGER[])", "CALL foo a"));
    assert!(!resolves("(x : INTEGER[])", "CALL foo r"));
    assert!(!resolves("(x : INTEGER[])", "CALL foo a[0]"));
    assert!(!resolves("(x : INTEGER[])", "CALL foo 1"));
    for s in [
        "INTEGER",
        "INTEGER ( )",
        "(x:INTEGER)",
        "(x:mut INTEGER[3],y:REAL[])",
        "  REAL   (  x  :  mut   BIT  ,  y : OCTET [ 2 ] , z : REAL [ ] )  ",
        "(x : INTEGER, x : REAL)",
        "(a--b : INTEGER, _ : BIT)",
        "(x : INTEGER[0], y : INTEGER[18446744073709551615], z : INTEGER[0x10])",
    ] {
        let sig = ExternSignature::from_str(s).expect(s);
        let printed = sig.to_quil().expect("print");
        assert_eq!(ExternSignature::from_str(&printed).ok(), Some(sig), "{s}");
    }
    for s in ["", "()", "(mut : INTEGER)", "(pi : INTEGER)", "(x : mut mut INTEGER)", "(x : INTEGER,)", "INTEGER[2] (x : INTEGER)"] {
        assert!(ExternSignature::from_str(s).is_err(), "{s}");
    }
}

#[test]
fn ok_c13_substitute_evaluate_memory_refs() {
    let e = Expression::from_str("cis(%a)*theta[1] - sqrt(%b)/(beta[0]^2) + -pi").unwrap();
    let a = Complex64::new(0.3, -1.5);
    let b = Complex64::new(-2.0, 0.25);
    let vars: HashMap<String, Complex64> = [("a".to_string(), a), ("b".to_string(), b)].into();
    let mem: HashMap<String, Vec<f64>> = [("theta".to_string(), vec![0.0, 2.5]), ("beta".to_string(), vec![3.0])].into();
    let none: HashMap<String, Complex64> = HashMap::new();
    let subst: HashMap<String, Expression> = [("a".to_string(), Expression::Number(a)), ("b".to_string(), Expression::Number(b))].into();
    assert_eq!(e.substitute_variables(&subst).evaluate(&none, &mem), e.evaluate(&vars, &mem));
    assert!(e.evaluate(&vars, &mem).is_ok());
    let refs: Vec<String> = e.memory_references().map(|r| r.to_quil_or_debug()).collect();
    assert_eq!(refs, v(&["theta[1]", "beta[0]"]));
    // missing variable / missing cell / short region
    assert!(e.evaluate(&none, &mem).is_err());
    let short: HashMap<String, Vec<f64>> = [("theta".to_string(), vec![0.0]), ("beta".to_string(), vec![3.0])].into();
    assert!(e.evaluate(&vars, &short).is_err());
    let partial: HashMap<String, Expression> = [("a".to_string(), Expression::Number(a))].into();
    assert!(e.substitute_variables(&partial).evaluate(&none, &mem).is_err());
}

// ---------------------------------------------------------------------------------------------
// CONFIRMED VIOLATIONS (these tests FAIL on the unchanged code)
// ---------------------------------------------------------------------------------------------

/// C13: substituting numbers and then evaluating must equal evaluating with the numbers bound.
/// Sub-expressions are hash-consed (`ArcIntern`) with an equality that identifies +0.0 and -0.0,
/// so substituting `-4-0i` while `-4+0i` is alive silently yields `-4+0i`; `sqrt` has its branch
/// cut there, so the value changes from `-2i` to `+2i`.
#[test]
fn c13_substitution_conflates_signed_zero() {
    let e = Expression::from_str("sqrt(%x) + sqrt(%y)").unwrap();
    let x = Complex64::new(-4.0, 0.0);
    let y = Complex64::new(-4.0, -0.0);
    let vars: HashMap<String, Complex64> = [("x".to_string(), x), ("y".to_string(), y)].into();
    let mem: HashMap<String, Vec<f64>> = HashMap::new();
    let none: HashMap<String, Complex64> = HashMap::new();
    let subst: HashMap<String, Expression> =
        [("x".to_string(), Expression::Number(x)), ("y".to_string(), Expression::Number(y))].into();
    let direct = e.evaluate(&vars, &mem).unwrap(); // 2i + (-2i) = 0
    let substituted = e.substitute_variables(&subst).evaluate(&none, &mem).unwrap(); // observed 4i
    assert_eq!(direct, Complex64::new(0.0, 0.0));
    assert_eq!(substituted, direct);
}

/// C13, same cause, showing the dependence on unrelated live expressions: the result of
/// substitute-then-evaluate depends on which other expressions currently exist in the process.
#[test]
fn c13_substitution_depends_on_other_live_expressions() {
    let e = Expression::from_str("sqrt(%x)").unwrap();
    let mem: HashMap<String, Vec<f64>> = HashMap::new();
    let none: HashMap<String, Complex64> = HashMap::new();
    let plus = Complex64::new(-9.0, 0.0);
    let minus = Complex64::new(-9.0, -0.0);
    let s_plus = e.substitute_variables(&HashMap::from([("x".to_string(), Expression::Number(plus))]));
    let s_minus = e.substitute_variables(&HashMap::from([("x".to_string(), Expression::Number(minus))]));
    let bound = e.evaluate(&HashMap::from([("x".to_string(), minus)]), &mem).unwrap();
    assert_eq!(bound, Complex64::new(0.0, -3.0));
    assert_eq!(s_plus.evaluate(&none, &mem).unwrap(), Complex64::new(0.0, 3.0));
    assert_eq!(s_minus.evaluate(&none, &mem).unwrap(), bound); // observed +3i
}

/// C16: a calibration parameter that is not a variable must equal the gate's parameter.
/// `%t*1` is not a variable, and is not equal to `3`, yet `RX(3) 0` matches because the
/// calibration's parameter is simplified to a bare variable before the comparison.  Expansion
/// only binds syntactic variables, so the expansion leaks the unbound `%t`.
#[test]
fn c16_parameter_simplifying_to_variable_matches_anything() {
    let defs = "DEFCAL RX(%t*1) 0:\n    RZ(%t) 0";
    let program = Program::from_str(&format!("{defs}\nRX(3) 0\n")).unwrap();
    let expanded = program.expand_calibrations().unwrap();
    let body: Vec<String> = expanded.body_instructions().map(|i| i.to_quil_or_debug()).collect();
    // Either the calibration does not match (body unchanged) or `%t` is bound to 3.
    assert!(
        body == v(&["RX(3) 0"]) || body == v(&["RZ(3) 0"]),
        "expansion produced {body:?}"
    );
}

/// C16: "ties go to the later definition" vs. "redefinition replaces in place".  The third
/// DEFCAL is the latest definition and ties with the second (one fixed qubit each), but it is
/// stored in the slot of the first one, so the second wins.  Renaming the variable (`%u`), which
/// does not change the meaning of the calibration, flips the result.
#[test]
fn c16_redefinition_keeps_old_precedence_gate() {
    let with_same_name = gate_match(
        "DEFCAL RX(%t) 0:\n    PRAGMA A\nDEFCAL RX(pi) 0:\n    PRAGMA B\nDEFCAL RX(%t) 0:\n    PRAGMA C",
        "RX(pi) 0",
    );
    let with_renamed_variable = gate_match(
        "DEFCAL RX(%t) 0:\n    PRAGMA A\nDEFCAL RX(pi) 0:\n    PRAGMA B\nDEFCAL RX(%u) 0:\n    PRAGMA C",
        "RX(pi) 0",
    );
    assert_eq!(with_renamed_variable, Some("PRAGMA C".to_string()));
    assert_eq!(with_same_name, Some("PRAGMA C".to_string())); // observed PRAGMA B
}

#[test]
fn c16_redefinition_keeps_old_precedence_measure() {
    let got = measure_match(
        "DEFCAL MEASURE q addr:\n    PRAGMA V1\nDEFCAL MEASURE r addr:\n    PRAGMA V2\nDEFCAL MEASURE q addr:\n    PRAGMA V3",
        "MEASURE 0 ro[0]",
    );
    assert_eq!(got, Some("PRAGMA V3".to_string())); // observed PRAGMA V2
}

fn definition_accesses(text: &str) -> String {
    let p = Program::from_str(text).expect("parse");
    let i = p
        .to_instructions()
        .into_iter()
        .find(|i| !matches!(i, Instruction::Declaration(_)))
        .unwrap();
    accesses_of(&i, &p)
}

/// C27: regions referenced in an instruction's expressions are reads.  DEFWAVEFORM and
/// DEFGATE AS MATRIX / AS SEQUENCE report them; DEFFRAME attribute expressions are ignored.
#[test]
fn c27_defframe_attribute_expression_not_read() {
    assert_eq!(
        definition_accesses("DECLARE r REAL[4]\nDEFWAVEFORM wf:\n    r[0], 2*r[1]\n"),
        "reads=[\"r\"] writes=[] captures=[]"
    );
    assert_eq!(
        definition_accesses("DECLARE r REAL[4]\nDEFFRAME 0 \"xy\":\n    INITIAL-FREQUENCY: 2*r[1]+1\n"),
        "reads=[\"r\"] writes=[] captures=[]"
    ); // observed reads=[]
}

/// C27: same for the coefficient expressions of DEFGATE AS PAULI-SUM.
#[test]
fn c27_defgate_pauli_sum_expression_not_read() {
    assert_eq!(
        definition_accesses("DECLARE r REAL[4]\nDEFGATE G(%t) p AS SEQUENCE:\n    RX(r[0]*%t) p\n"),
        "reads=[\"r\"] writes=[] captures=[]"
    );
    assert_eq!(
        definition_accesses("DECLARE r REAL[4]\nDEFGATE G(%t) p AS PAULI-SUM:\n    X(r[0]*%t) p\n"),
        "reads=[\"r\"] writes=[] captures=[]"
    ); // observed reads=[]
}

/// C31: a scalar slot / the return slot takes a *declared* memory reference.  `a` is declared
/// with 4 cells, `a[9]` does not exist, yet the CALL resolves.
#[test]
fn c31_out_of_range_reference_resolves() {
    assert!(resolves("(x : INTEGER)", "CALL foo a[3]"));
    assert!(!resolves("(x : INTEGER)", "CALL foo a[9]"), "scalar slot accepted a[9] of INTEGER[4]");
}

#[test]
fn c31_out_of_range_return_reference_resolves() {
    assert!(!resolves("INTEGER", "CALL foo one[1]"), "return slot accepted one[1] of INTEGER[1]");
}

// ---------------------------------------------------------------------------------------------
// Side findings outside the listed properties (also FAIL on the unchanged code)
// ---------------------------------------------------------------------------------------------

/// DEFCAL printing drops gate modifiers, so the printed program means something else.
#[test]
fn side_defcal_modifiers_lost_when_printed() {
    let p = Program::from_str("DEFCAL DAGGER X 0:\n    PRAGMA A\n").unwrap();
    let printed = p.to_quil().unwrap();
    assert_eq!(Program::from_str(&printed).unwrap(), p, "printed as {printed:?}");
}

/// `DELAY 0 r[0]` (no frame names, memory-reference duration) does not parse, although the
/// library itself prints exactly this text for such a Delay.
#[test]
fn side_delay_with_memory_reference_duration_does_not_parse() {
    assert!(Program::from_str("DECLARE r REAL\nDELAY 0 r[0]\n").is_ok());
}

/// Expanding a MEASURE through `DEFCAL MEASURE q addr` never binds the qubit variable `q`.
#[test]
fn side_measure_calibration_qubit_variable_not_substituted() {
    let p = Program::from_str("DECLARE ro BIT\nDEFCAL MEASURE q addr:\n    FENCE q\nMEASURE 3 ro[0]\n").unwrap();
    let expanded = p.expand_calibrations().unwrap();
    let body: Vec<String> = expanded.body_instructions().map(|i| i.to_quil_or_debug()).collect();
    assert_eq!(body, v(&["FENCE 3"])); // observed FENCE q
}

/// Observation only (the property speaks about "RESET of a qubit"): a bare RESET "uses" only the
/// frames whose qubit set equals the set of *all* qubits mentioned by gates/measurements/etc. in
/// the program, and ignores qubits that occur only in DEFFRAMEs or frame instructions.
#[test]
fn explore_bare_reset() {
    for body in ["RESET", "X 0\nRESET", "X 0\nX 1\nRESET", "SET-PHASE 2 \"xy\" 1.0\nRESET"] {
        let text = format!("{FRAMES}{body}\n");
        let program = Program::from_str(&text).unwrap();
        let n = program.body_instructions().count();
        println!("{body:?} => {:?}", frames(&text, n - 1));
    }
}

/// Side finding: a bare RESET resets every qubit, so it should use or block every frame; it
/// touches none when the only qubit mentions are in DEFFRAMEs / frame instructions, and when
/// several qubits are used it "uses" only the frames spanning all of them.
#[test]
fn side_bare_reset_ignores_frames() {
    let text = format!("{FRAMES}SET-PHASE 2 \"xy\" 1.0\nRESET\n");
    let (used, blocked) = frames(&text, 1);
    assert_eq!(used.len() + blocked.len(), 8, "used={used:?} blocked={blocked:?}");
}
