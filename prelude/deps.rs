// ---- stand-ins for dependency types (assumed contracts, listed in evidence) ----

// internment::ArcIntern<T>: an immutable shared pointer. Deref returns the pointee, `new(x)` points to `x`,
// clone points to the same value.  (Hash-consing only affects pointer identity, which no unit observes.)
pub struct ArcIntern<T> { pub inner: Box<T> }
impl<T> Clone for ArcIntern<T> {
    #[verifier::external_body]
    fn clone(&self) -> (r: Self) ensures r == *self { unimplemented!() }
}
impl<T> std::ops::Deref for ArcIntern<T> {
    type Target = T;
    fn deref(&self) -> (r: &T) ensures *r == *self.inner { &*self.inner }
}
impl<T> ArcIntern<T> {
    #[verifier::external_body]
    pub fn new(x: T) -> (r: Self) ensures *r.inner == x { unimplemented!() }
}
impl<T> AsRef<T> for ArcIntern<T> {
    fn as_ref(&self) -> (r: &T) ensures *r == *self.inner { &*self.inner }
}
impl<T: PartialEq> PartialEq for ArcIntern<T> {
    #[verifier::external_body]
    fn eq(&self, other: &Self) -> bool { unimplemented!() }
}
impl<T: Eq> Eq for ArcIntern<T> {}
impl<T: Hash> Hash for ArcIntern<T> {
    #[verifier::external_body]
    fn hash<H: std::hash::Hasher>(&self, state: &mut H) { unimplemented!() }
}
impl<T: Debug> Debug for ArcIntern<T> {
    #[verifier::external_body]
    fn fmt(&self, f: &mut std::fmt::Formatter<'_>) -> std::fmt::Result { unimplemented!() }
}

// num_complex::Complex64: a pair of f64.  Floating point values are opaque: arithmetic on them is uninterpreted.
#[derive(Clone, Copy, Debug, PartialEq)]
pub struct Complex64 { pub re: f64, pub im: f64 }

// indexmap::IndexMap<String, V>: insertion-ordered map.  View: the sequence of (key, value) pairs in order,
// keys pairwise distinct.  `get` looks the key up.
#[verifier::external_body]
#[verifier::reject_recursive_types(K)]
#[verifier::accept_recursive_types(V)]
pub struct IndexMap<K, V> { _k: std::marker::PhantomData<(K, V)> }
pub trait StrLike { spec fn sview(&self) -> Seq<char>; }
impl StrLike for String { open spec fn sview(&self) -> Seq<char> { self@ } }
impl StrLike for str { open spec fn sview(&self) -> Seq<char> { self@ } }
impl<V> IndexMap<String, V> {
    pub uninterp spec fn entries(&self) -> Seq<(Seq<char>, V)>;
    pub open spec fn keys(&self) -> Seq<Seq<char>> { self.entries().map_values(|e: (Seq<char>, V)| e.0) }
    pub open spec fn has(&self, k: Seq<char>) -> bool { self.keys().contains(k) }
    pub open spec fn at(&self, k: Seq<char>) -> V { self.entries()[self.keys().index_of(k)].1 }
    #[verifier::external_body]
    pub fn get<Q: ?Sized + StrLike>(&self, k: &Q) -> (r: Option<&V>)
        ensures match r { Some(v) => self.has(k.sview()) && *v == self.at(k.sview()), None => !self.has(k.sview()) }
    { unimplemented!() }
    #[verifier::external_body]
    pub fn contains_key<Q: ?Sized + StrLike>(&self, k: &Q) -> (r: bool)
        ensures r == self.has(k.sview())
    { unimplemented!() }
    #[verifier::external_body]
    pub fn len(&self) -> (r: usize) ensures r == self.entries().len() { unimplemented!() }
    #[verifier::external_body]
    pub fn is_empty(&self) -> (r: bool) ensures r == (self.entries().len() == 0) { unimplemented!() }
}
