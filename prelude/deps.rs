// ---- stand-ins for dependency types (assumed contracts, listed in evidence) ----

// internment::ArcIntern<T>: an immutable shared pointer. Deref returns the pointee, `new(x)` points to `x`,
// clone points to the same value.  (Hash-consing only affects pointer identity, which no unit observes.)
pub struct ArcIntern<T> { pub inner: Box<T> }
impl<T> Clone for ArcIntern<T> {
    #[verifier::external_body]
    fn clone(&self) -> (r: Self) ensures r == *self { unimplemented!() }
}
impl<T> std::ops::Deref for ArcIntern<T> {
    type Target = T;
    fn deref(&self) -> (r: &T) ensures *r == *self.inner { &*self.inner }
}
impl<T> ArcIntern<T> {
    #[verifier::external_body]
    pub fn new(x: T) -> (r: Self) ensures *r.inner == x { unimplemented!() }
}
pub open spec fn arc<T>(x: T) -> ArcIntern<T> { ArcIntern { inner: Box::new(x) } }
impl<T> vstd::std_specs::convert::FromSpecImpl<T> for ArcIntern<T> {
    open spec fn obeys_from_spec() -> bool { true }
    open spec fn from_spec(v: T) -> Self { arc(v) }
}
impl<T> From<T> for ArcIntern<T> {
    #[verifier::external_body]
    fn from(v: T) -> Self { unimplemented!() }
}
impl<T> AsRef<T> for ArcIntern<T> {
    fn as_ref(&self) -> (r: &T) ensures *r == *self.inner { &*self.inner }
}
// `==` on ArcIntern compares pointers, i.e. (hash-consing) the interned values: assumed to hold only for equal values
impl<T: PartialEq> vstd::std_specs::cmp::PartialEqSpecImpl for ArcIntern<T> {
    open spec fn obeys_eq_spec() -> bool { true }
    open spec fn eq_spec(&self, other: &Self) -> bool { *self == *other }
}
impl<T: PartialEq> PartialEq for ArcIntern<T> {
    #[verifier::external_body]
    fn eq(&self, other: &Self) -> (r: bool) ensures r == (*self == *other) { unimplemented!() }
}
impl<T: Eq> Eq for ArcIntern<T> {}
impl<T: Hash> Hash for ArcIntern<T> {
    #[verifier::external_body]
    fn hash<H: std::hash::Hasher>(&self, state: &mut H) { unimplemented!() }
}
impl<T: Debug> Debug for ArcIntern<T> {
    #[verifier::external_body]
    fn fmt(&self, f: &mut std::fmt::Formatter<'_>) -> std::fmt::Result { unimplemented!() }
}

// num_complex::Complex64: a pair of f64.  Floating point values are opaque: arithmetic on them is uninterpreted.
#[derive(Clone, Copy, Debug, PartialEq)]
pub struct Complex64 { pub re: f64, pub im: f64 }
pub mod num_complex { pub use super::Complex64; }
pub uninterp spec fn c_neg(z: Complex64) -> Complex64;
pub uninterp spec fn c_add(a: Complex64, b: Complex64) -> Complex64;
pub uninterp spec fn c_sub(a: Complex64, b: Complex64) -> Complex64;
pub uninterp spec fn c_mul(a: Complex64, b: Complex64) -> Complex64;
pub uninterp spec fn c_div(a: Complex64, b: Complex64) -> Complex64;
pub uninterp spec fn c_powc(a: Complex64, b: Complex64) -> Complex64;
pub uninterp spec fn c_sin(a: Complex64) -> Complex64;
pub uninterp spec fn c_cos(a: Complex64) -> Complex64;
pub uninterp spec fn c_exp(a: Complex64) -> Complex64;
pub uninterp spec fn c_sqrt(a: Complex64) -> Complex64;
impl Complex64 {
    pub const fn new(re: f64, im: f64) -> (r: Self) ensures r == (Complex64 { re, im }) { Complex64 { re, im } }
    #[verifier::external_body] pub fn powc(self, e: Complex64) -> (r: Complex64) ensures r == c_powc(self, e) { unimplemented!() }
    #[verifier::external_body] pub fn sin(self) -> (r: Complex64) ensures r == c_sin(self) { unimplemented!() }
    #[verifier::external_body] pub fn cos(self) -> (r: Complex64) ensures r == c_cos(self) { unimplemented!() }
    #[verifier::external_body] pub fn exp(self) -> (r: Complex64) ensures r == c_exp(self) { unimplemented!() }
    #[verifier::external_body] pub fn sqrt(self) -> (r: Complex64) ensures r == c_sqrt(self) { unimplemented!() }
}
impl vstd::std_specs::ops::NegSpecImpl for Complex64 {
    open spec fn obeys_neg_spec() -> bool { true }
    open spec fn neg_req(self) -> bool { true }
    open spec fn neg_spec(self) -> Complex64 { c_neg(self) }
}
impl std::ops::Neg for Complex64 { type Output = Complex64; #[verifier::external_body] fn neg(self) -> Complex64 { unimplemented!() } }
impl vstd::std_specs::ops::AddSpecImpl<Complex64> for Complex64 {
    open spec fn obeys_add_spec() -> bool { true }
    open spec fn add_req(self, rhs: Complex64) -> bool { true }
    open spec fn add_spec(self, rhs: Complex64) -> Complex64 { c_add(self, rhs) }
}
impl std::ops::Add for Complex64 { type Output = Complex64; #[verifier::external_body] fn add(self, rhs: Complex64) -> Complex64 { unimplemented!() } }
impl vstd::std_specs::ops::SubSpecImpl<Complex64> for Complex64 {
    open spec fn obeys_sub_spec() -> bool { true }
    open spec fn sub_req(self, rhs: Complex64) -> bool { true }
    open spec fn sub_spec(self, rhs: Complex64) -> Complex64 { c_sub(self, rhs) }
}
impl std::ops::Sub for Complex64 { type Output = Complex64; #[verifier::external_body] fn sub(self, rhs: Complex64) -> Complex64 { unimplemented!() } }
impl vstd::std_specs::ops::MulSpecImpl<Complex64> for Complex64 {
    open spec fn obeys_mul_spec() -> bool { true }
    open spec fn mul_req(self, rhs: Complex64) -> bool { true }
    open spec fn mul_spec(self, rhs: Complex64) -> Complex64 { c_mul(self, rhs) }
}
impl std::ops::Mul for Complex64 { type Output = Complex64; #[verifier::external_body] fn mul(self, rhs: Complex64) -> Complex64 { unimplemented!() } }
impl vstd::std_specs::ops::DivSpecImpl<Complex64> for Complex64 {
    open spec fn obeys_div_spec() -> bool { true }
    open spec fn div_req(self, rhs: Complex64) -> bool { true }
    open spec fn div_spec(self, rhs: Complex64) -> Complex64 { c_div(self, rhs) }
}
impl std::ops::Div for Complex64 { type Output = Complex64; #[verifier::external_body] fn div(self, rhs: Complex64) -> Complex64 { unimplemented!() } }

// indexmap::IndexMap<String, V>: insertion-ordered map.  View: the sequence of (key, value) pairs in order,
// keys pairwise distinct.  `get` looks the key up.
#[verifier::external_body]
#[verifier::reject_recursive_types(K)]
#[verifier::accept_recursive_types(V)]
pub struct IndexMap<K, V> { _k: std::marker::PhantomData<(K, V)> }
pub trait StrLike { spec fn sview(&self) -> Seq<char>; }
impl StrLike for String { open spec fn sview(&self) -> Seq<char> { self@ } }
impl StrLike for str { open spec fn sview(&self) -> Seq<char> { self@ } }
impl<V> IndexMap<String, V> {
    pub uninterp spec fn entries(&self) -> Seq<(Seq<char>, V)>;
    pub open spec fn keys(&self) -> Seq<Seq<char>> { self.entries().map_values(|e: (Seq<char>, V)| e.0) }
    pub open spec fn has(&self, k: Seq<char>) -> bool { self.keys().contains(k) }
    pub open spec fn at(&self, k: Seq<char>) -> V { self.entries()[self.keys().index_of(k)].1 }
    #[verifier::external_body]
    pub fn get<Q: ?Sized + StrLike>(&self, k: &Q) -> (r: Option<&V>)
        ensures match r { Some(v) => self.has(k.sview()) && *v == self.at(k.sview()), None => !self.has(k.sview()) }
    { unimplemented!() }
    #[verifier::external_body]
    pub fn contains_key<Q: ?Sized + StrLike>(&self, k: &Q) -> (r: bool)
        ensures r == self.has(k.sview())
    { unimplemented!() }
    #[verifier::external_body]
    pub fn len(&self) -> (r: usize) ensures r == self.entries().len() { unimplemented!() }
    #[verifier::external_body]
    pub fn is_empty(&self) -> (r: bool) ensures r == (self.entries().len() == 0) { unimplemented!() }
}
