// ---- ordered-map model for indexmap::IndexMap<K, V> (assumed contracts, from the indexmap documentation) ----
// `ents()` is the sequence of (key, value) pairs in iteration order; keys are pairwise distinct.
// insert: "If an equivalent key already exists in the map: the key remains and retains in its place in the order,
// its corresponding value is updated ... If no equivalent key existed in the map: the new key-value pair is
// inserted, last in order".  extend = insert for every pair of the argument, in its order.
pub open spec fn om_index<K, V>(m: Seq<(K, V)>, k: K) -> Option<int>
    decreases m.len()
{
    if m.len() == 0 { None }
    else {
        match om_index(m.drop_last(), k) {
            Some(i) => Some(i),
            None => if m.last().0 == k { Some(m.len() - 1) } else { None },
        }
    }
}
pub open spec fn om_upsert<K, V>(m: Seq<(K, V)>, k: K, v: V) -> Seq<(K, V)> {
    match om_index(m, k) {
        Some(i) => m.update(i, (k, v)),
        None => m.push((k, v)),
    }
}
pub open spec fn om_extend<K, V>(m: Seq<(K, V)>, other: Seq<(K, V)>) -> Seq<(K, V)>
    decreases other.len()
{
    if other.len() == 0 { m } else { om_upsert(om_extend(m, other.drop_last()), other.last().0, other.last().1) }
}
pub open spec fn om_distinct<K, V>(m: Seq<(K, V)>) -> bool {
    forall|i: int, j: int| 0 <= i < j < m.len() ==> (#[trigger] m[i]).0 != (#[trigger] m[j]).0
}
pub proof fn lemma_om_index<K, V>(m: Seq<(K, V)>, k: K)
    ensures match om_index(m, k) {
        Some(i) => 0 <= i < m.len() && m[i].0 == k && forall|j: int| 0 <= j < i ==> (#[trigger] m[j]).0 != k,
        None => forall|j: int| 0 <= j < m.len() ==> (#[trigger] m[j]).0 != k,
    }
    decreases m.len()
{
    if m.len() > 0 {
        lemma_om_index(m.drop_last(), k);
        assert forall|j: int| 0 <= j < m.len() - 1 implies m.drop_last()[j] == m[j] by {}
    }
}
impl<K, V> IndexMap<K, V> {
    pub uninterp spec fn ents(&self) -> Seq<(K, V)>;
    #[verifier::external_body]
    pub fn new() -> (r: Self) ensures r.ents() == Seq::<(K, V)>::empty() { unimplemented!() }
    #[verifier::external_body]
    pub fn insert(&mut self, k: K, v: V) -> (r: Option<V>)
        ensures
            final(self).ents() == om_upsert(old(self).ents(), k, v),
            match om_index(old(self).ents(), k) { Some(i) => r == Some(old(self).ents()[i].1), None => r is None },
    { unimplemented!() }
    #[verifier::external_body]
    pub fn extend(&mut self, other: IndexMap<K, V>)
        ensures final(self).ents() == om_extend(old(self).ents(), other.ents())
    { unimplemented!() }
}
pub broadcast axiom fn axiom_indexmap_distinct<K, V>(m: IndexMap<K, V>)
    ensures #[trigger] om_distinct(m.ents());
impl<K, V> Default for IndexMap<K, V> {
    #[verifier::external_body]
    fn default() -> (r: Self) ensures r.ents() == Seq::<(K, V)>::empty() { unimplemented!() }
}
impl<K: Clone, V: Clone> Clone for IndexMap<K, V> {
    #[verifier::external_body]
    fn clone(&self) -> (r: Self) ensures r == *self { unimplemented!() }
}
impl<K: PartialEq, V: PartialEq> PartialEq for IndexMap<K, V> {
    #[verifier::external_body]
    fn eq(&self, other: &Self) -> bool { unimplemented!() }
}
impl<K: Eq, V: Eq> Eq for IndexMap<K, V> {}
impl<K: Debug, V: Debug> Debug for IndexMap<K, V> {
    #[verifier::external_body]
    fn fmt(&self, f: &mut std::fmt::Formatter<'_>) -> std::fmt::Result { unimplemented!() }
}
