use vstd::std_specs::convert::FromSpecImpl;
// ---- assumed specifications of std items that vstd does not cover (listed in evidence) ----
// `T::default()` as an uninterpreted value, with the std-documented value for the types used
pub uninterp spec fn default_of<T>() -> T;
pub broadcast axiom fn axiom_vec_default_empty<T>()
    ensures #[trigger] default_of::<Vec<T>>()@ == Seq::<T>::empty();
pub assume_specification<T: Default>[ std::mem::take::<T> ](dest: &mut T) -> (r: T)
    ensures r == *old(dest), *final(dest) == default_of::<T>();
pub assume_specification<T>[ std::mem::replace::<T> ](dest: &mut T, src: T) -> (r: T)
    ensures r == *old(dest), *final(dest) == src;
pub assume_specification<T, E, U>[ Result::<T, E>::and::<U> ](a: Result<T, E>, b: Result<U, E>) -> (r: Result<U, E>)
    ensures r == (match a { Ok(_) => b, Err(e) => Err::<U, E>(e) });
pub assume_specification<T, E, U, F: FnOnce(T) -> Result<U, E>>[ Result::<T, E>::and_then::<U, F> ](a: Result<T, E>, f: F) -> (r: Result<U, E>)
    requires a is Ok ==> f.requires((a->Ok_0,)),
    ensures match a { Ok(v) => f.ensures((v,), r), Err(e) => r == Err::<U, E>(e) };
pub assume_specification<T, P: FnOnce(&T) -> bool>[ Option::<T>::filter::<P> ](o: Option<T>, p: P) -> (r: Option<T>)
    requires o is Some ==> p.requires((&o->Some_0,)),
    ensures match o {
        Some(v) => (r is None || r == Some(v)) && (r is Some ==> p.ensures((&v,), true)) && (r is None ==> p.ensures((&v,), false)),
        None => r is None,
    };
pub assume_specification<T: Eq + Hash, const N: usize>[ <HashSet<T> as From<[T; N]>>::from ](arr: [T; N]) -> (r: HashSet<T>)
    ensures r@ == arr@.to_set();
pub assume_specification[ <i64 as From<u32>>::from ](x: u32) -> (r: i64) ensures r == x as i64;
pub assume_specification[ i64::unsigned_abs ](x: i64) -> (r: u64)
    ensures (r as int) == (if (x as int) < 0 { -(x as int) } else { x as int });
pub assume_specification[ i64::wrapping_neg ](x: i64) -> (r: i64)
    ensures (r as int) == (if x == i64::MIN { i64::MIN as int } else { -(x as int) });
pub assume_specification[ i64::wrapping_abs ](x: i64) -> (r: i64)
    ensures (r as int) == (if x == i64::MIN { i64::MIN as int } else if (x as int) < 0 { -(x as int) } else { x as int });
pub assume_specification[ i64::checked_neg ](x: i64) -> (r: Option<i64>)
    ensures match r { Some(v) => (v as int) == -(x as int), None => x == i64::MIN };
// Vec lengths never exceed usize::MAX (std: capacity <= isize::MAX)
pub axiom fn axiom_vec_len_bound<T>(v: &Vec<T>) ensures v@.len() <= usize::MAX;
// bool -> integer conversions (std: `false` is 0, `true` is 1); vstd specifies only the integer widenings
pub assume_specification[ <usize as From<bool>>::from ](b: bool) -> (r: usize) ensures r == (if b { 1usize } else { 0usize });
pub assume_specification[ <u64 as From<bool>>::from ](b: bool) -> (r: u64) ensures r == (if b { 1u64 } else { 0u64 });
pub assume_specification[ <u32 as From<bool>>::from ](b: bool) -> (r: u32) ensures r == (if b { 1u32 } else { 0u32 });
pub assume_specification[ <u8 as From<bool>>::from ](b: bool) -> (r: u8) ensures r == (if b { 1u8 } else { 0u8 });
pub assume_specification[ <i64 as From<bool>>::from ](b: bool) -> (r: i64) ensures r == (if b { 1i64 } else { 0i64 });
pub assume_specification[ <i32 as From<bool>>::from ](b: bool) -> (r: i32) ensures r == (if b { 1i32 } else { 0i32 });
